package main

// Translation go/ast → VwCtor / VwItem / VwLen / VwSlice / VwPtr (lean/QF/Core/VwExpr.lean) of the typed VIEWS of the five
// column packages:
//
//	func (c Column) View(ix index.Int) View                          → VwCtor
//	func (v View) ItemAt(i int) T                                    → VwItem
//	func (v View) Len() int                                          → VwLen
//	func (v View) Slice() []T                                        → VwSlice
//	func stringToPtr(s string, isNull bool) *string        (scolumn) → VwPtr
//	func (c Column) stringPtrAt(i uint32) *string          (ecolumn) → VwPtr
//	func (c Column) stringCopyAt(i uint32) (string, bool)  (scolumn) → RE (oast.go: a pair helper like `stringAt`)
//
// By ROLE, never by identifier name: the fields of `type View struct` are found by their TYPES (`index.Int` of
// internal/index: the index; a slice type: the cell slice; `Column`: the column). In `Column.View` the receiver is the
// column and the parameter the index; in the methods of `View` the receiver is the view, the parameter of `ItemAt` the
// position; in `Slice` the key / value of the `range` over the view's index are the position / the row. The helpers are
// found by their SIGNATURES: the package function (string, bool) *string; the methods of `Column` (uint32) *string and
// (uint32) (string, bool) — of the latter, `stringAt` is the one oast.go translates, any other one is "the copying one".
//
// Fixed vocabulary: the type names `View`, `Column`; the methods `View`, `ItemAt`, `Len`, `Slice`, `stringAt`, `isNull`;
// the fields `data` (kast.go: cellField) and `values` of the column; the builtins `len`, `make`.
// Whatever is not understood becomes `.opaque "<text>"`; the proofs of QF/Props/C09ViewsGen.lean fail on it.

import (
	"fmt"
	"go/ast"
	"go/token"
	"strings"
)

type vsym struct {
	// view | recv | ixparam | pos | row | vindex | vdata | vcol | item | lenE | sparam | flag | rowparam
	kind string
	t    *lt
}

type vscope map[string]vsym

func (s vscope) clone() vscope {
	r := vscope{}
	for k, v := range s {
		r[k] = v
	}
	return r
}

type vctx struct {
	pkg       string
	files     map[string]*ast.File
	fns       map[string]*ast.FuncDecl
	imports   map[string]string
	idxField  string
	dataField string
	colField  string
	fields    []string // the fields of View in declaration order
	ptrHelper string   // the package function (string, bool) *string the views call
	copyMeth  string   // the method (uint32) (string, bool) of Column other than stringAt the views call
	enumPtr   string   // the method (uint32) *string of Column the views call
}

func newVctx(pkg string, files map[string]*ast.File, fns map[string]*ast.FuncDecl, imports map[string]string) *vctx {
	c := &vctx{pkg: pkg, files: files, fns: fns, imports: imports}
	for _, f := range files {
		for _, d := range f.Decls {
			gd, ok := d.(*ast.GenDecl)
			if !ok || gd.Tok != token.TYPE {
				continue
			}
			for _, sp := range gd.Specs {
				ts := sp.(*ast.TypeSpec)
				st, ok := ts.Type.(*ast.StructType)
				if !ok || ts.Name.Name != "View" {
					continue
				}
				for _, fl := range st.Fields.List {
					for _, n := range fl.Names {
						c.fields = append(c.fields, n.Name)
						switch t := fl.Type.(type) {
						case *ast.SelectorExpr:
							if id, ok := t.X.(*ast.Ident); ok && t.Sel.Name == "Int" && strings.HasSuffix(imports[id.Name], "/internal/index") && c.idxField == "" {
								c.idxField = n.Name
							}
						case *ast.ArrayType:
							if t.Len == nil && c.dataField == "" {
								c.dataField = n.Name
							}
						case *ast.Ident:
							if t.Name == "Column" && c.colField == "" {
								c.colField = n.Name
							}
						}
					}
				}
			}
		}
	}
	return c
}

func vUnbound(sc vscope, e ast.Expr, name string) bool {
	id, ok := unparen(e).(*ast.Ident)
	if !ok || id.Name != name {
		return false
	}
	_, b := sc[name]
	return !b
}

// the signature of a function: parameter types and result types as text
func sigOf(fd *ast.FuncDecl) (params, results []string) {
	return flatTypes(fd.Type.Params), flatTypes(fd.Type.Results)
}

func (c *vctx) vExpr(e ast.Expr, sc vscope) vsym {
	unknown := vsym{kind: "unknown"}
	switch t := unparen(e).(type) {
	case *ast.Ident:
		if s, ok := sc[t.Name]; ok {
			return s
		}
	case *ast.SelectorExpr:
		if x := c.vExpr(t.X, sc); x.kind == "view" {
			switch t.Sel.Name {
			case c.idxField:
				return vsym{kind: "vindex"}
			case c.dataField:
				return vsym{kind: "vdata"}
			case c.colField:
				return vsym{kind: "vcol"}
			}
		}
	case *ast.IndexExpr:
		x, i := c.vExpr(t.X, sc), c.vExpr(t.Index, sc)
		switch {
		case x.kind == "vindex" && i.kind == "pos":
			return vsym{kind: "row", t: lh("VwRow.indexAt", i.t)}
		case x.kind == "vdata" && i.kind == "row":
			return vsym{kind: "item", t: lh("VwItem.dataAt", i.t)}
		case x.kind == "vdata" && i.kind == "pos":
			return vsym{kind: "item", t: lh("VwItem.dataAt", lh("VwRow.posAsRow", i.t))}
		}
	case *ast.CallExpr:
		if t.Ellipsis.IsValid() {
			return unknown
		}
		// len(v.index)
		if vUnbound(sc, t.Fun, "len") && len(t.Args) == 1 && c.vExpr(t.Args[0], sc).kind == "vindex" {
			return vsym{kind: "lenE", t: lh("VwLenE.lenIndex")}
		}
		// helper(v.column.<pair method>(row))
		if fn, ok := unparen(t.Fun).(*ast.Ident); ok && len(t.Args) == 1 {
			if _, bound := sc[fn.Name]; bound {
				return unknown
			}
			fd, ok := c.fns[fn.Name]
			if !ok || fd.Recv != nil {
				return unknown
			}
			if ps, rs := sigOf(fd); strings.Join(ps, ",") != "string,bool" || strings.Join(rs, ",") != "*string" {
				return unknown
			}
			inner, ok := unparen(t.Args[0]).(*ast.CallExpr)
			if !ok || len(inner.Args) != 1 || inner.Ellipsis.IsValid() {
				return unknown
			}
			sel, ok := inner.Fun.(*ast.SelectorExpr)
			if !ok || c.vExpr(sel.X, sc).kind != "vcol" {
				return unknown
			}
			row := c.vExpr(inner.Args[0], sc)
			md, ok := c.fns["Column."+sel.Sel.Name]
			if !ok || row.kind != "row" {
				return unknown
			}
			if ps, rs := sigOf(md); strings.Join(ps, ",") != "uint32" || strings.Join(rs, ",") != "string,bool" {
				return unknown
			}
			if c.ptrHelper != "" && c.ptrHelper != fn.Name {
				return unknown
			}
			copyFlag := "false"
			if sel.Sel.Name != "stringAt" {
				if c.copyMeth != "" && c.copyMeth != sel.Sel.Name {
					return unknown
				}
				c.copyMeth = sel.Sel.Name
				copyFlag = "true"
			}
			c.ptrHelper = fn.Name
			return vsym{kind: "item", t: lh("VwItem.strPtr", lh(copyFlag), row.t)}
		}
		sel, ok := t.Fun.(*ast.SelectorExpr)
		if !ok {
			return unknown
		}
		x := c.vExpr(sel.X, sc)
		switch {
		case x.kind == "view" && sel.Sel.Name == "Len" && len(t.Args) == 0:
			return vsym{kind: "lenE", t: lh("VwLenE.callLen")}
		case x.kind == "view" && sel.Sel.Name == "ItemAt" && len(t.Args) == 1:
			if p := c.vExpr(t.Args[0], sc); p.kind == "pos" {
				return vsym{kind: "item", t: lh("VwItem.itemAt", p.t)}
			}
		case x.kind == "vcol" && len(t.Args) == 1:
			md, ok := c.fns["Column."+sel.Sel.Name]
			row := c.vExpr(t.Args[0], sc)
			if !ok || row.kind != "row" {
				return unknown
			}
			if ps, rs := sigOf(md); strings.Join(ps, ",") != "uint32" || strings.Join(rs, ",") != "*string" {
				return unknown
			}
			if c.enumPtr != "" && c.enumPtr != sel.Sel.Name {
				return unknown
			}
			c.enumPtr = sel.Sel.Name
			return vsym{kind: "item", t: lh("VwItem.enumPtr", row.t)}
		}
	}
	return unknown
}

// a method of View without parameters other than `roles`: the scope
func (c *vctx) viewScope(fd *ast.FuncDecl, roles ...vsym) (vscope, bool) {
	sc := vscope{}
	if !recvIs(fd, "View") {
		return sc, false
	}
	for _, n := range fd.Recv.List[0].Names {
		sc[n.Name] = vsym{kind: "view"}
	}
	names := paramNames(fd)
	if len(names) != len(roles) {
		return sc, false
	}
	for i, n := range names {
		if n != "_" {
			sc[n] = roles[i]
		}
	}
	return sc, true
}

func vSoleReturn(fd *ast.FuncDecl) (ast.Expr, bool) {
	if len(fd.Body.List) != 1 {
		return nil, false
	}
	ret, ok := fd.Body.List[0].(*ast.ReturnStmt)
	if !ok || len(ret.Results) != 1 {
		return nil, false
	}
	return ret.Results[0], true
}

func (c *vctx) ctorAst() *lt {
	fd, ok := c.fns["Column.View"]
	if !ok {
		return ls("VwCtor.opaque", "?missing")
	}
	names := paramNames(fd)
	if !recvIs(fd, "Column") || len(fd.Recv.List[0].Names) != 1 || len(names) != 1 || names[0] == "_" || strings.Join(flatTypes(fd.Type.Results), ",") != "View" {
		return ls("VwCtor.opaque", "signature")
	}
	recv := fd.Recv.List[0].Names[0].Name
	r, ok := vSoleReturn(fd)
	if !ok || recv == names[0] {
		return ls("VwCtor.opaque", src(fd.Body))
	}
	cl, ok := unparen(r).(*ast.CompositeLit)
	if !ok || cl.Type == nil || src(cl.Type) != "View" || recv == "View" || names[0] == "View" {
		return ls("VwCtor.opaque", src(r))
	}
	vals := map[string]ast.Expr{}
	for i, el := range cl.Elts {
		if kvp, ok := el.(*ast.KeyValueExpr); ok {
			k, ok := kvp.Key.(*ast.Ident)
			if !ok {
				return ls("VwCtor.opaque", src(r))
			}
			vals[k.Name] = kvp.Value
		} else if i < len(c.fields) && len(cl.Elts) == len(c.fields) {
			vals[c.fields[i]] = el
		} else {
			return ls("VwCtor.opaque", src(r))
		}
	}
	if len(vals) != 2 || c.idxField == "" || !isName(vals[c.idxField], names[0]) {
		return ls("VwCtor.opaque", src(r))
	}
	if v, ok := vals[c.dataField]; ok && c.dataField != "" {
		if sel, ok := unparen(v).(*ast.SelectorExpr); ok && isName(sel.X, recv) && sel.Sel.Name == cellField[c.pkg] && cellField[c.pkg] != "" {
			return lh("VwCtor.ofData")
		}
	}
	if v, ok := vals[c.colField]; ok && c.colField != "" && isName(v, recv) {
		return lh("VwCtor.ofColumn")
	}
	return ls("VwCtor.opaque", src(r))
}

func posTerm(w string) *lt { return lh("VwPos." + w) }

func (c *vctx) itemAtAst() *lt {
	fd, ok := c.fns["View.ItemAt"]
	if !ok {
		return ls("VwItem.opaque", "?missing")
	}
	sc, ok := c.viewScope(fd, vsym{kind: "pos", t: posTerm("param")})
	if !ok {
		return ls("VwItem.opaque", "signature")
	}
	r, ok := vSoleReturn(fd)
	if !ok {
		return ls("VwItem.opaque", src(fd.Body))
	}
	if it := c.vExpr(r, sc); it.kind == "item" {
		return it.t
	}
	return ls("VwItem.opaque", src(r))
}

func (c *vctx) lenAst() *lt {
	fd, ok := c.fns["View.Len"]
	if !ok {
		return ls("VwLen.opaque", "?missing")
	}
	sc, ok := c.viewScope(fd)
	if !ok || strings.Join(flatTypes(fd.Type.Results), ",") != "int" {
		return ls("VwLen.opaque", "signature")
	}
	r, ok := vSoleReturn(fd)
	if !ok {
		return ls("VwLen.opaque", src(fd.Body))
	}
	if l := c.vExpr(r, sc); l.kind == "lenE" && l.t.head == "VwLenE.lenIndex" {
		return lh("VwLen.lenIndex")
	}
	return ls("VwLen.opaque", src(r))
}

// Slice: `result := make([]T, <len>); for i, j := range v.index { result[i] = <item> }; return result`
func (c *vctx) sliceAst() *lt {
	fd, ok := c.fns["View.Slice"]
	if !ok {
		return ls("VwSlice.opaque", "?missing")
	}
	sc, ok := c.viewScope(fd)
	bad := func() *lt { return ls("VwSlice.opaque", src(fd.Body)) }
	if !ok {
		return ls("VwSlice.opaque", "signature")
	}
	b := fd.Body.List
	if len(b) != 3 {
		return bad()
	}
	as, ok := b[0].(*ast.AssignStmt)
	if !ok || as.Tok != token.DEFINE || len(as.Lhs) != 1 || len(as.Rhs) != 1 {
		return bad()
	}
	res, ok := as.Lhs[0].(*ast.Ident)
	if !ok || res.Name == "_" {
		return bad()
	}
	if _, bound := sc[res.Name]; bound {
		return bad()
	}
	mk, ok := unparen(as.Rhs[0]).(*ast.CallExpr)
	if !ok || !vUnbound(sc, mk.Fun, "make") || len(mk.Args) != 2 {
		return bad()
	}
	if rt := flatTypes(fd.Type.Results); len(rt) != 1 || rt[0] != src(mk.Args[0]) {
		return bad()
	}
	n := c.vExpr(mk.Args[1], sc)
	if n.kind != "lenE" {
		return bad()
	}
	rg, ok := b[1].(*ast.RangeStmt)
	if !ok || rg.Tok != token.DEFINE || c.vExpr(rg.X, sc).kind != "vindex" || rg.Key == nil || len(rg.Body.List) != 1 {
		return bad()
	}
	inner := sc.clone()
	key, ok := rg.Key.(*ast.Ident)
	if !ok || key.Name == "_" || key.Name == res.Name {
		return bad()
	}
	inner[key.Name] = vsym{kind: "pos", t: posTerm("loopPos")}
	if rg.Value != nil {
		val, ok := rg.Value.(*ast.Ident)
		if !ok || val.Name == res.Name || val.Name == key.Name {
			return bad()
		}
		if val.Name != "_" {
			inner[val.Name] = vsym{kind: "row", t: lh("VwRow.loopRow")}
		}
	}
	st, ok := rg.Body.List[0].(*ast.AssignStmt)
	if !ok || st.Tok != token.ASSIGN || len(st.Lhs) != 1 || len(st.Rhs) != 1 {
		return bad()
	}
	ix, ok := st.Lhs[0].(*ast.IndexExpr)
	if !ok || !isName(ix.X, res.Name) || !isName(ix.Index, key.Name) {
		return bad()
	}
	item := c.vExpr(st.Rhs[0], inner)
	ret, ok := b[2].(*ast.ReturnStmt)
	if !ok || len(ret.Results) != 1 || !isName(ret.Results[0], res.Name) {
		return bad()
	}
	if item.kind != "item" {
		return lh("VwSlice.fill", n.t, ls("VwItem.opaque", src(st.Rhs[0])))
	}
	return lh("VwSlice.fill", n.t, item.t)
}

// the pointer helpers: decision trees with the leaves `nil`, `&s`, `&c.values[c.data[i]]`
func (c *vctx) pCond(e ast.Expr, sc vscope) *lt {
	e = unparen(e)
	if u, ok := e.(*ast.UnaryExpr); ok && u.Op == token.NOT {
		return lh("VwCond.not", c.pCond(u.X, sc))
	}
	if id, ok := e.(*ast.Ident); ok && sc[id.Name].kind == "flag" {
		return lh("VwCond.flagParam")
	}
	// c.data[i].isNull()
	if call, ok := e.(*ast.CallExpr); ok && len(call.Args) == 0 {
		if sel, ok := call.Fun.(*ast.SelectorExpr); ok && sel.Sel.Name == "isNull" && c.pkg == "ecolumn" && c.isRecvCell(sel.X, sc) {
			return lh("VwCond.cellIsNull")
		}
	}
	return ls("VwCond.opaque", src(e))
}

// `recv.data[<row parameter>]`
func (c *vctx) isRecvCell(e ast.Expr, sc vscope) bool {
	ix, ok := unparen(e).(*ast.IndexExpr)
	if !ok {
		return false
	}
	sel, ok := unparen(ix.X).(*ast.SelectorExpr)
	if !ok || sel.Sel.Name != cellField[c.pkg] || cellField[c.pkg] == "" {
		return false
	}
	x, ok1 := unparen(sel.X).(*ast.Ident)
	i, ok2 := unparen(ix.Index).(*ast.Ident)
	return ok1 && ok2 && sc[x.Name].kind == "recv" && sc[i.Name].kind == "rowparam"
}

func (c *vctx) pBlock(stmts []ast.Stmt, sc vscope, depth int) *lt {
	if len(stmts) == 0 {
		return ls("VwPtr.opaque", "no return")
	}
	if depth > 20 {
		return ls("VwPtr.opaque", stmtsText(stmts))
	}
	rest := stmts[1:]
	switch s := stmts[0].(type) {
	case *ast.ReturnStmt:
		if len(s.Results) != 1 {
			break
		}
		r := unparen(s.Results[0])
		if isNilIdent(r) && vUnbound(sc, r, "nil") {
			return lh("VwPtr.nilPtr")
		}
		u, ok := r.(*ast.UnaryExpr)
		if !ok || u.Op != token.AND {
			break
		}
		x := unparen(u.X)
		if id, ok := x.(*ast.Ident); ok && sc[id.Name].kind == "sparam" {
			return lh("VwPtr.addrStr")
		}
		// &c.values[c.data[i]]
		if ix, ok := x.(*ast.IndexExpr); ok && c.pkg == "ecolumn" && c.isRecvCell(ix.Index, sc) {
			if sel, ok := unparen(ix.X).(*ast.SelectorExpr); ok && sel.Sel.Name == "values" {
				if id, ok := unparen(sel.X).(*ast.Ident); ok && sc[id.Name].kind == "recv" {
					return lh("VwPtr.addrEnumValue")
				}
			}
		}
	case *ast.IfStmt:
		if s.Init != nil {
			break
		}
		join := func(b []ast.Stmt) []ast.Stmt { return append(append([]ast.Stmt{}, b...), rest...) }
		cond := c.pCond(s.Cond, sc)
		then := c.pBlock(join(s.Body.List), sc, depth+1)
		var els *lt
		switch e := s.Else.(type) {
		case nil:
			els = c.pBlock(rest, sc, depth+1)
		case *ast.BlockStmt:
			els = c.pBlock(join(e.List), sc, depth+1)
		default:
			els = c.pBlock(join([]ast.Stmt{e}), sc, depth+1)
		}
		return lh("VwPtr.ite", cond, then, els)
	case *ast.BlockStmt:
		return c.pBlock(append(append([]ast.Stmt{}, s.List...), rest...), sc, depth+1)
	}
	return ls("VwPtr.opaque", stmtsText(stmts))
}

// the package function (string, bool) *string the views call
func (c *vctx) ptrHelperAst() *lt {
	if c.ptrHelper == "" {
		return ls("VwPtr.opaque", "?no helper called")
	}
	fd := c.fns[c.ptrHelper]
	names := paramNames(fd)
	if len(names) != 2 || names[0] == names[1] {
		return ls("VwPtr.opaque", "signature")
	}
	sc := vscope{}
	if names[0] != "_" {
		sc[names[0]] = vsym{kind: "sparam"}
	}
	if names[1] != "_" {
		sc[names[1]] = vsym{kind: "flag"}
	}
	return c.pBlock(fd.Body.List, sc, 0)
}

// the method (uint32) *string of Column the views call
func (c *vctx) enumPtrAst() *lt {
	if c.enumPtr == "" {
		return ls("VwPtr.opaque", "?no helper called")
	}
	fd := c.fns["Column."+c.enumPtr]
	names := paramNames(fd)
	if !recvIs(fd, "Column") || len(fd.Recv.List[0].Names) != 1 || len(names) != 1 || names[0] == "_" || names[0] == fd.Recv.List[0].Names[0].Name {
		return ls("VwPtr.opaque", "signature")
	}
	sc := vscope{fd.Recv.List[0].Names[0].Name: vsym{kind: "recv"}, names[0]: vsym{kind: "rowparam"}}
	return c.pBlock(fd.Body.List, sc, 0)
}

// viewsLean renders QF/Gen/Views.lean.
func viewsLean(pkgs []string, pkgFiles map[string]map[string]*ast.File, fns map[string]map[string]*ast.FuncDecl, imports map[string]map[string]string) string {
	var ctors, items, lens, slices []string
	strPtr, enumPtr := ls("VwPtr.opaque", "?missing"), ls("VwPtr.opaque", "?missing")
	strCopy := ls("RE.opaque", "?not called")
	for _, p := range pkgs {
		c := newVctx(p, pkgFiles[p], fns[p], imports[p])
		ctors = append(ctors, fmt.Sprintf("  (%s, %s)", leanStr(p), c.ctorAst().lean()))
		items = append(items, fmt.Sprintf("  (%s, %s)", leanStr(p), c.itemAtAst().lean()))
		lens = append(lens, fmt.Sprintf("  (%s, %s)", leanStr(p), c.lenAst().lean()))
		slices = append(slices, fmt.Sprintf("  (%s, %s)", leanStr(p), c.sliceAst().lean()))
		switch p {
		case "scolumn":
			strPtr = c.ptrHelperAst()
			if c.copyMeth != "" {
				o := &octx{pkg: p, imports: imports[p]}
				strCopy = o.renderAst(fns[p]["Column."+c.copyMeth], []string{"ix"}, "pair")
			}
		case "ecolumn":
			enumPtr = c.enumPtrAst()
		}
	}
	var b strings.Builder
	b.WriteString("/- GENERATED on every run by /verif/go/cmd/extract from /repo's source (tie T1). Do not edit. -/\nimport QF.Core.VwExpr\nnamespace QF.Gen\n\n")
	b.WriteString("/-- `Column.View(ix)` of every column package: (package, term) -/\ndef viewCtorAst : List (String × VwCtor) := [\n" + strings.Join(ctors, ",\n") + "]\n\n")
	b.WriteString("/-- `View.ItemAt(i)` of every column package: (package, term) -/\ndef viewItemAtAst : List (String × VwItem) := [\n" + strings.Join(items, ",\n") + "]\n\n")
	b.WriteString("/-- `View.Len()` of every column package: (package, term) -/\ndef viewLenAst : List (String × VwLen) := [\n" + strings.Join(lens, ",\n") + "]\n\n")
	b.WriteString("/-- `View.Slice()` of every column package: (package, term) -/\ndef viewSliceAst : List (String × VwSlice) := [\n" + strings.Join(slices, ",\n") + "]\n\n")
	b.WriteString("/-- the function (string, bool) *string of scolumn its view wraps the cell in (`stringToPtr`) -/\ndef viewStrPtrAst : VwPtr := " + strPtr.lean() + "\n\n")
	b.WriteString("/-- the method (uint32) (string, bool) of scolumn.Column other than `stringAt` its view reads cells with (`stringCopyAt`) -/\ndef viewStrCopyAst : RE := " + strCopy.lean() + "\n\n")
	b.WriteString("/-- the method (uint32) *string of ecolumn.Column its view reads cells with (`stringPtrAt`) -/\ndef viewEnumPtrAst : VwPtr := " + enumPtr.lean() + "\n\nend QF.Gen\n")
	return b.String()
}
