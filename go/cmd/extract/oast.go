package main

// Translation go/ast → EQ / OP / RE (lean/QF/Core/OExpr.lean) of the per-cell OBSERVATION functions of the five column
// packages:
//
//	func (c Column) Equals(index index.Int, other column.Column, otherIndex index.Int) bool   → EQ (loop body: OP)
//	func (c Column) StringAt(i uint32, naRep string) string                                   → RE (string leaves)
//	func (c Column) AppendByteStringAt(buf []byte, i uint32) []byte                           → RE (buffer leaves)
//	func (c Column) stringAt(i uint32) (string, bool) / bytesAt(i uint32) ([]byte, bool)      → RE (pair leaves; scolumn)
//	func (v enumVal) isNull() bool                                                            → the code compared with (ecolumn)
//
// As in cast.go the translation is by ROLE, never by identifier name: the receiver is the column; in `Equals` the first
// parameter is the receiver's index, the second one the other column (an interface value until it is type-asserted to
// `Column`), the third one its index; the key of the `range` over the first parameter is the position, its value (or
// `index[ix]`) the receiver's row, `otherIndex[ix]` the other column's row. Cell `x` is the receiver's cell at ITS row,
// cell `y` the asserted column's cell at ITS row — `otherI.data[x]`, `c.values[oEnumVal]` and the like have no role and
// make the term opaque. In the renderers the parameters are (index, naRep) resp. (buf, index). Local names get their role
// from their declaration (`v1, v2 := c.data[x], otherI.data[otherIndex[ix]]`, `s, sNull := c.stringAt(x)`,
// `p := c.pointers[i]`, `value := c.data[i]`).
//
// Fixed vocabulary: the field names `data` (cells; scolumn: the byte buffer), `pointers`, `values`; the methods `stringAt`,
// `bytesAt`, `isNull`, `IsNull`, `Offset`, `Len`; the functions strconv.{Itoa, FormatInt, AppendInt, FormatBool, AppendBool,
// FormatFloat}, math.IsNaN, bytes.Equal, AppendFloat64f of internal/ryu, AppendQuotedString / UnsafeBytesToString of
// internal/strings (packages are recognised by their import PATH, whatever they are called locally), the builtin `append`.
// Whatever is not understood becomes `.opaque "<text>"`; such a function has no semantics in the model and the proofs of
// QF/Props/C09Observe.lean fail on it.

import (
	"fmt"
	"go/ast"
	"go/token"
	"strconv"
	"strings"
)

// osym is what a Go name (or expression) stands for while an observation function is translated.
type osym struct {
	// Equals:   recv | idx1 | other | idx2 | ocol | ok | pos | row | data | cell | vals | estr | pair | str | null | cond | bool
	// renderer: recv | ix | narep | buf | data | cell | icell | ptrs | ptr | bytesdata | vals | pair | sval | null | cond |
	//           bval | off | len | offlen | int | char | bool
	kind string
	w    string // Equals: "x" | "y"; int, char, bool: the value
	t    *lt    // cond: the OP / RTest; sval, bval: the RE
}

type oscope map[string]osym

func (s oscope) clone() oscope {
	r := oscope{}
	for k, v := range s {
		r[k] = v
	}
	return r
}

type octx struct {
	pkg     string
	imports map[string]string // local package name → import path
}

// is `e` the (unshadowed) local name of the package `want`? ("strconv", "math", "bytes": the standard packages; "ryu",
// "strings": the repository's internal/ryu, internal/strings)
func (c *octx) isPkg(sc oscope, e ast.Expr, want string) bool {
	id, ok := e.(*ast.Ident)
	if !ok {
		return false
	}
	if _, bound := sc[id.Name]; bound {
		return false
	}
	p, ok := c.imports[id.Name]
	if !ok {
		return false
	}
	switch want {
	case "ryu", "strings":
		return strings.HasSuffix(p, "/internal/"+want)
	}
	return p == want
}

func isUnbound(sc oscope, e ast.Expr, name string) bool {
	id, ok := e.(*ast.Ident)
	if !ok || id.Name != name {
		return false
	}
	_, b := sc[name]
	return !b
}

func oBoolLit(sc oscope, e ast.Expr) (bool, bool) {
	switch {
	case isUnbound(sc, unparen(e), "true"):
		return true, true
	case isUnbound(sc, unparen(e), "false"):
		return false, true
	}
	return false, false
}

// ---------------------------------------------------------------------------------------------------------------------
// Equals

func (c *octx) eqExpr(e ast.Expr, sc oscope) osym {
	unknown := osym{kind: "unknown"}
	switch t := e.(type) {
	case *ast.ParenExpr:
		return c.eqExpr(t.X, sc)
	case *ast.Ident:
		if s, ok := sc[t.Name]; ok {
			return s
		}
		if b, ok := oBoolLit(sc, t); ok {
			return osym{kind: "bool", w: strconv.FormatBool(b)}
		}
	case *ast.SelectorExpr:
		x := c.eqExpr(t.X, sc)
		w := map[string]string{"recv": "x", "ocol": "y"}[x.kind]
		if w == "" {
			break
		}
		if f, ok := cellField[c.pkg]; ok && t.Sel.Name == f {
			return osym{kind: "data", w: w}
		}
		if c.pkg == "ecolumn" && t.Sel.Name == "values" {
			return osym{kind: "vals", w: w}
		}
	case *ast.IndexExpr:
		x, i := c.eqExpr(t.X, sc), c.eqExpr(t.Index, sc)
		switch {
		case x.kind == "idx1" && i.kind == "pos":
			return osym{kind: "row", w: "x"}
		case x.kind == "idx2" && i.kind == "pos":
			return osym{kind: "row", w: "y"}
		case x.kind == "data" && i.kind == "row" && x.w == i.w:
			return osym{kind: "cell", w: x.w}
		case x.kind == "vals" && i.kind == "cell" && x.w == i.w:
			return osym{kind: "estr", w: x.w}
		}
	case *ast.CallExpr:
		sel, ok := t.Fun.(*ast.SelectorExpr)
		if !ok {
			break
		}
		if c.isPkg(sc, sel.X, "math") {
			if sel.Sel.Name == "IsNaN" && len(t.Args) == 1 && c.pkg == "fcolumn" {
				if a := c.eqExpr(t.Args[0], sc); a.kind == "cell" {
					return osym{kind: "cond", t: lh("OP." + a.w + "NaN")}
				}
			}
			return unknown
		}
		if c.isPkg(sc, sel.X, "bytes") {
			if sel.Sel.Name == "Equal" && len(t.Args) == 2 && c.pkg == "scolumn" {
				a, b := c.eqExpr(t.Args[0], sc), c.eqExpr(t.Args[1], sc)
				if a.kind == "str" && b.kind == "str" && a.w != b.w {
					return osym{kind: "cond", t: lh("OP.bytesEq")}
				}
			}
			return unknown
		}
		recv := c.eqExpr(sel.X, sc)
		switch {
		case (recv.kind == "recv" || recv.kind == "ocol") && c.pkg == "scolumn" && (sel.Sel.Name == "stringAt" || sel.Sel.Name == "bytesAt") && len(t.Args) == 1:
			w := map[string]string{"recv": "x", "ocol": "y"}[recv.kind]
			if a := c.eqExpr(t.Args[0], sc); a.kind == "row" && a.w == w {
				return osym{kind: "pair", w: w}
			}
		case recv.kind == "cell" && sel.Sel.Name == "isNull" && c.pkg == "ecolumn" && len(t.Args) == 0:
			return osym{kind: "cond", t: lh("OP." + recv.w + "Null")}
		}
	}
	return unknown
}

func (c *octx) eqCond(e ast.Expr, sc oscope) *lt {
	bad := func() *lt { return ls("OP.opaque", src(e)) }
	switch t := unparen(e).(type) {
	case *ast.UnaryExpr:
		if t.Op == token.NOT {
			return lh("OP.not", c.eqCond(t.X, sc))
		}
		return bad()
	case *ast.BinaryExpr:
		switch t.Op {
		case token.LOR:
			return lh("OP.or", c.eqCond(t.X, sc), c.eqCond(t.Y, sc))
		case token.LAND:
			return lh("OP.and", c.eqCond(t.X, sc), c.eqCond(t.Y, sc))
		case token.EQL, token.NEQ:
			a, b := c.eqExpr(t.X, sc), c.eqExpr(t.Y, sc)
			var r *lt
			if a.kind == b.kind && a.w != b.w && a.w != "" && b.w != "" {
				switch a.kind {
				case "cell":
					if c.pkg != "scolumn" {
						r = lh("OP.xEqY")
					}
				case "str":
					r = lh("OP.bytesEq")
				case "estr":
					r = lh("OP.enumStrEq")
				}
			}
			if r == nil {
				return bad()
			}
			if t.Op == token.NEQ {
				return lh("OP.not", r)
			}
			return r
		}
		return bad()
	}
	s := c.eqExpr(e, sc)
	switch s.kind {
	case "cond":
		return s.t
	case "null":
		return lh("OP." + s.w + "Null")
	case "bool":
		if s.w == "true" {
			return lh("OP.tt")
		}
		return lh("OP.ff")
	}
	return bad()
}

// `lhs := rhs` inside the loop body
func (c *octx) eqDefine(as *ast.AssignStmt, sc oscope) bool {
	if as.Tok != token.DEFINE {
		return false
	}
	names := make([]string, len(as.Lhs))
	for i, l := range as.Lhs {
		id, ok := l.(*ast.Ident)
		if !ok {
			return false
		}
		names[i] = id.Name
	}
	var vals []osym
	switch {
	case len(as.Rhs) == len(as.Lhs):
		for _, r := range as.Rhs {
			vals = append(vals, c.eqExpr(r, sc))
		}
	case len(as.Lhs) == 2 && len(as.Rhs) == 1:
		p := c.eqExpr(as.Rhs[0], sc)
		if p.kind != "pair" {
			return false
		}
		vals = []osym{{kind: "str", w: p.w}, {kind: "null", w: p.w}}
	default:
		return false
	}
	for i, n := range names {
		if n != "_" {
			sc[n] = vals[i]
		}
	}
	return true
}

// eqBody translates the body of the loop: `return false` is ff, `continue` and the end of the body are tt.
func (c *octx) eqBody(stmts []ast.Stmt, sc oscope, depth int) *lt {
	if len(stmts) == 0 {
		return lh("OP.tt")
	}
	if depth > 40 {
		return ls("OP.opaque", stmtsText(stmts))
	}
	rest := stmts[1:]
	join := func(body []ast.Stmt) []ast.Stmt {
		return append(append([]ast.Stmt{}, body...), rest...)
	}
	switch s := stmts[0].(type) {
	case *ast.ReturnStmt:
		if len(s.Results) == 1 {
			if b, ok := oBoolLit(sc, s.Results[0]); ok && !b {
				return lh("OP.ff")
			}
		}
	case *ast.BranchStmt:
		if s.Tok == token.CONTINUE && s.Label == nil {
			return lh("OP.tt")
		}
	case *ast.AssignStmt:
		sc = sc.clone()
		if c.eqDefine(s, sc) {
			return c.eqBody(rest, sc, depth+1)
		}
	case *ast.BlockStmt:
		return c.eqBody(join(s.List), sc.clone(), depth+1)
	case *ast.IfStmt:
		sc = sc.clone()
		if s.Init != nil {
			as, ok := s.Init.(*ast.AssignStmt)
			if !ok || !c.eqDefine(as, sc) {
				break
			}
		}
		cond := c.eqCond(s.Cond, sc)
		then := c.eqBody(join(s.Body.List), sc, depth+1)
		var els *lt
		switch e := s.Else.(type) {
		case nil:
			els = c.eqBody(rest, sc, depth+1)
		case *ast.BlockStmt:
			els = c.eqBody(join(e.List), sc, depth+1)
		case *ast.IfStmt:
			els = c.eqBody(join([]ast.Stmt{e}), sc, depth+1)
		default:
			els = ls("OP.opaque", src(s.Else))
		}
		return lh("OP.ite", cond, then, els)
	}
	return ls("OP.opaque", stmtsText(stmts))
}

// eqFunc translates the statements of `Equals` outside the loop.
func (c *octx) eqFunc(stmts []ast.Stmt, sc oscope) *lt {
	if len(stmts) == 0 {
		return ls("EQ.opaque", "no return")
	}
	rest := stmts[1:]
	switch s := stmts[0].(type) {
	case *ast.ReturnStmt:
		if len(s.Results) == 1 {
			if b, ok := oBoolLit(sc, s.Results[0]); ok {
				return lh("EQ.ret", lh(strconv.FormatBool(b)))
			}
		}
	case *ast.AssignStmt:
		// otherI, ok := other.(Column)
		if s.Tok != token.DEFINE || len(s.Lhs) != 2 || len(s.Rhs) != 1 {
			break
		}
		ta, ok := unparen(s.Rhs[0]).(*ast.TypeAssertExpr)
		if !ok || ta.Type == nil || !isUnbound(sc, ta.Type, "Column") || c.eqExpr(ta.X, sc).kind != "other" {
			break
		}
		col, ok1 := s.Lhs[0].(*ast.Ident)
		flag, ok2 := s.Lhs[1].(*ast.Ident)
		if !ok1 || !ok2 || flag.Name == "_" {
			break
		}
		for _, v := range sc {
			if v.kind == "ocol" || v.kind == "ok" {
				ok1 = false
			}
		}
		if !ok1 {
			break
		}
		sc = sc.clone()
		if col.Name != "_" {
			sc[col.Name] = osym{kind: "ocol"}
		}
		sc[flag.Name] = osym{kind: "ok"}
		// the test of the flag has to follow at once: until then the asserted column may be the zero value
		if len(rest) == 0 {
			break
		}
		ifs, ok := rest[0].(*ast.IfStmt)
		if !ok || ifs.Init != nil || ifs.Else != nil || len(ifs.Body.List) != 1 {
			break
		}
		u, ok := unparen(ifs.Cond).(*ast.UnaryExpr)
		if !ok || u.Op != token.NOT || c.eqExpr(u.X, sc).kind != "ok" {
			break
		}
		ret, ok := ifs.Body.List[0].(*ast.ReturnStmt)
		if !ok || len(ret.Results) != 1 {
			break
		}
		b, ok := oBoolLit(sc, ret.Results[0])
		if !ok {
			break
		}
		return lh("EQ.assertType", lh(strconv.FormatBool(b)), c.eqFunc(rest[1:], sc))
	case *ast.RangeStmt:
		if s.Tok != token.DEFINE || c.eqExpr(s.X, sc).kind != "idx1" {
			break
		}
		inner := sc.clone()
		ok := true
		bind := func(e ast.Expr, v osym) {
			if e == nil {
				return
			}
			id, isID := e.(*ast.Ident)
			if !isID {
				ok = false
				return
			}
			if id.Name != "_" {
				inner[id.Name] = v
			}
		}
		bind(s.Key, osym{kind: "pos"})
		bind(s.Value, osym{kind: "row", w: "x"})
		if !ok {
			break
		}
		return lh("EQ.loopAll", c.eqBody(s.Body.List, inner, 0), c.eqFunc(rest, sc))
	}
	return ls("EQ.opaque", stmtsText(stmts))
}

func recvIs(fd *ast.FuncDecl, typ string) bool {
	return fd.Recv != nil && len(fd.Recv.List) == 1 && src(fd.Recv.List[0].Type) == typ
}

// equalsAst translates `func (c Column) Equals(index index.Int, other column.Column, otherIndex index.Int) bool`.
func (c *octx) equalsAst(fd *ast.FuncDecl) *lt {
	sc := oscope{}
	if !recvIs(fd, "Column") {
		return ls("EQ.opaque", "receiver")
	}
	for _, n := range fd.Recv.List[0].Names {
		sc[n.Name] = osym{kind: "recv"}
	}
	names := paramNames(fd)
	if len(names) != 3 {
		return ls("EQ.opaque", "parameters")
	}
	for i, n := range names {
		if n != "_" {
			sc[n] = osym{kind: []string{"idx1", "other", "idx2"}[i]}
		}
	}
	return c.eqFunc(fd.Body.List, sc)
}

// ---------------------------------------------------------------------------------------------------------------------
// StringAt / AppendByteStringAt / the helpers

func isIntLitVal(e ast.Expr, v string) bool {
	bl, ok := unparen(e).(*ast.BasicLit)
	return ok && bl.Kind == token.INT && bl.Value == v
}

func isMinusOne(e ast.Expr) bool {
	u, ok := unparen(e).(*ast.UnaryExpr)
	return ok && u.Op == token.SUB && isIntLitVal(u.X, "1")
}

func (c *octx) reExpr(e ast.Expr, sc oscope) osym {
	unknown := osym{kind: "unknown"}
	switch t := e.(type) {
	case *ast.ParenExpr:
		return c.reExpr(t.X, sc)
	case *ast.Ident:
		if s, ok := sc[t.Name]; ok {
			return s
		}
		if b, ok := oBoolLit(sc, t); ok {
			return osym{kind: "bool", w: strconv.FormatBool(b)}
		}
		if isUnbound(sc, t, "nil") {
			return osym{kind: "sval", t: lh("RE.lit", bytesTerm(""))}
		}
	case *ast.BasicLit:
		switch t.Kind {
		case token.STRING:
			if v, err := strconv.Unquote(t.Value); err == nil {
				return osym{kind: "sval", t: lh("RE.lit", bytesTerm(v))}
			}
		case token.INT:
			return osym{kind: "int", w: t.Value}
		case token.FLOAT:
			return osym{kind: "float", w: t.Value}
		case token.CHAR:
			if v, _, _, err := strconv.UnquoteChar(strings.Trim(t.Value, "'"), '\''); err == nil && v < 0x80 {
				return osym{kind: "char", w: string(rune(v))}
			}
		}
	case *ast.SelectorExpr:
		if x := c.reExpr(t.X, sc); x.kind == "recv" {
			if f, ok := cellField[c.pkg]; ok && t.Sel.Name == f {
				return osym{kind: "data"}
			}
			switch {
			case c.pkg == "scolumn" && t.Sel.Name == "pointers":
				return osym{kind: "ptrs"}
			case c.pkg == "scolumn" && t.Sel.Name == "data":
				return osym{kind: "bytesdata"}
			case c.pkg == "ecolumn" && t.Sel.Name == "values":
				return osym{kind: "vals"}
			}
		}
	case *ast.IndexExpr:
		x, i := c.reExpr(t.X, sc), c.reExpr(t.Index, sc)
		switch {
		case x.kind == "data" && i.kind == "ix":
			return osym{kind: "cell"}
		case x.kind == "ptrs" && i.kind == "ix":
			return osym{kind: "ptr"}
		case x.kind == "vals" && i.kind == "cell":
			return osym{kind: "sval", t: lh("RE.enumValue")}
		}
	case *ast.BinaryExpr:
		if t.Op == token.ADD {
			if a, b := c.reExpr(t.X, sc), c.reExpr(t.Y, sc); a.kind == "off" && b.kind == "len" {
				return osym{kind: "offlen"}
			}
		}
	case *ast.SliceExpr:
		if t.Slice3 || t.Low == nil || t.High == nil {
			break
		}
		if x, lo, hi := c.reExpr(t.X, sc), c.reExpr(t.Low, sc), c.reExpr(t.High, sc); x.kind == "bytesdata" && lo.kind == "off" && hi.kind == "offlen" {
			return osym{kind: "sval", t: lh("RE.rawBytes")}
		}
	case *ast.CallExpr:
		return c.reCall(t, sc)
	}
	return unknown
}

func (c *octx) reCall(t *ast.CallExpr, sc oscope) osym {
	unknown := osym{kind: "unknown"}
	arg := func(i int) osym { return c.reExpr(t.Args[i], sc) }
	intCell := func(s osym) bool { return c.pkg == "icolumn" && (s.kind == "cell" || s.kind == "icell") }
	if id, ok := t.Fun.(*ast.Ident); ok {
		if _, bound := sc[id.Name]; bound {
			return unknown
		}
		switch {
		case (id.Name == "int" || id.Name == "int64") && len(t.Args) == 1 && c.pkg == "icolumn" && !t.Ellipsis.IsValid():
			if a := arg(0); a.kind == "cell" || a.kind == "icell" {
				return osym{kind: "icell"}
			}
		case id.Name == "string" && len(t.Args) == 1 && !t.Ellipsis.IsValid():
			if a := arg(0); a.kind == "sval" {
				return a
			}
		case id.Name == "append" && len(t.Args) == 2 && arg(0).kind == "buf":
			a := arg(1)
			switch {
			case t.Ellipsis.IsValid() && a.kind == "sval" && a.t.head == "RE.lit":
				return osym{kind: "bval", t: lh("RE.appendLit", a.t.args[0])}
			case t.Ellipsis.IsValid() && a.kind == "sval":
				return osym{kind: "bval", t: lh("RE.appendStr", a.t)}
			case !t.Ellipsis.IsValid() && a.kind == "char":
				return osym{kind: "bval", t: lh("RE.appendLit", bytesTerm(a.w))}
			}
		}
		return unknown
	}
	sel, ok := t.Fun.(*ast.SelectorExpr)
	if !ok || t.Ellipsis.IsValid() {
		return unknown
	}
	name := sel.Sel.Name
	switch {
	case c.isPkg(sc, sel.X, "strconv"):
		switch {
		case name == "Itoa" && len(t.Args) == 1 && intCell(arg(0)):
			return osym{kind: "sval", t: lh("RE.itoa")}
		case name == "FormatInt" && len(t.Args) == 2 && intCell(arg(0)) && isIntLitVal(t.Args[1], "10"):
			return osym{kind: "sval", t: lh("RE.itoa")}
		case name == "AppendInt" && len(t.Args) == 3 && arg(0).kind == "buf" && intCell(arg(1)) && isIntLitVal(t.Args[2], "10"):
			return osym{kind: "bval", t: lh("RE.appendInt")}
		case name == "FormatBool" && len(t.Args) == 1 && c.pkg == "bcolumn" && arg(0).kind == "cell":
			return osym{kind: "sval", t: lh("RE.formatBool")}
		case name == "AppendBool" && len(t.Args) == 2 && c.pkg == "bcolumn" && arg(0).kind == "buf" && arg(1).kind == "cell":
			return osym{kind: "bval", t: lh("RE.appendBool")}
		case name == "FormatFloat" && len(t.Args) == 4 && c.pkg == "fcolumn" && arg(0).kind == "cell" && arg(1).kind == "char" && arg(1).w == "f" && isMinusOne(t.Args[2]) && isIntLitVal(t.Args[3], "64"):
			return osym{kind: "sval", t: lh("RE.formatFloatF")}
		}
		return unknown
	case c.isPkg(sc, sel.X, "math"):
		if name == "IsNaN" && len(t.Args) == 1 && c.pkg == "fcolumn" && arg(0).kind == "cell" {
			return osym{kind: "cond", t: lh("RTest.isNaN")}
		}
		return unknown
	case c.isPkg(sc, sel.X, "ryu"):
		if name == "AppendFloat64f" && len(t.Args) == 2 && c.pkg == "fcolumn" && arg(0).kind == "buf" && arg(1).kind == "cell" {
			return osym{kind: "bval", t: lh("RE.ryuF")}
		}
		return unknown
	case c.isPkg(sc, sel.X, "strings"):
		switch {
		case name == "AppendQuotedString" && len(t.Args) == 2 && arg(0).kind == "buf" && arg(1).kind == "sval":
			return osym{kind: "bval", t: lh("RE.quoted", arg(1).t)}
		case name == "UnsafeBytesToString" && len(t.Args) == 1 && arg(0).kind == "sval":
			return arg(0)
		}
		return unknown
	}
	recv := c.reExpr(sel.X, sc)
	switch {
	case recv.kind == "recv" && c.pkg == "scolumn" && (name == "stringAt" || name == "bytesAt") && len(t.Args) == 1 && arg(0).kind == "ix":
		return osym{kind: "pair"}
	case recv.kind == "ptr" && len(t.Args) == 0:
		switch name {
		case "IsNull":
			return osym{kind: "cond", t: lh("RTest.isNull")}
		case "Offset":
			return osym{kind: "off"}
		case "Len":
			return osym{kind: "len"}
		}
	case recv.kind == "cell" && name == "isNull" && c.pkg == "ecolumn" && len(t.Args) == 0:
		return osym{kind: "cond", t: lh("RTest.isNull")}
	}
	return unknown
}

func (c *octx) reCond(e ast.Expr, sc oscope) *lt {
	bad := func() *lt { return ls("RTest.opaque", src(e)) }
	switch t := unparen(e).(type) {
	case *ast.UnaryExpr:
		if t.Op == token.NOT {
			return lh("RTest.not", c.reCond(t.X, sc))
		}
		return bad()
	case *ast.BinaryExpr:
		if t.Op != token.EQL && t.Op != token.NEQ {
			return bad()
		}
		a, b := c.reExpr(t.X, sc), c.reExpr(t.Y, sc)
		if a.kind != "cell" {
			a, b = b, a
		}
		zero := (b.kind == "int" && b.w == "0") || (b.kind == "float" && (b.w == "0.0" || b.w == "0."))
		if a.kind != "cell" || !zero || (c.pkg != "icolumn" && c.pkg != "fcolumn") {
			return bad()
		}
		if t.Op == token.NEQ {
			return lh("RTest.not", lh("RTest.isZero"))
		}
		return lh("RTest.isZero")
	}
	s := c.reExpr(e, sc)
	switch s.kind {
	case "cond":
		return s.t
	case "null":
		return lh("RTest.isNull")
	}
	return bad()
}

func (c *octx) reDefine(as *ast.AssignStmt, sc oscope) bool {
	if as.Tok != token.DEFINE {
		return false
	}
	names := make([]string, len(as.Lhs))
	for i, l := range as.Lhs {
		id, ok := l.(*ast.Ident)
		if !ok {
			return false
		}
		names[i] = id.Name
	}
	var vals []osym
	switch {
	case len(as.Rhs) == len(as.Lhs):
		for _, r := range as.Rhs {
			vals = append(vals, c.reExpr(r, sc))
		}
	case len(as.Lhs) == 2 && len(as.Rhs) == 1:
		if c.reExpr(as.Rhs[0], sc).kind != "pair" {
			return false
		}
		vals = []osym{{kind: "sval", t: lh("RE.strAt")}, {kind: "null"}}
	default:
		return false
	}
	for i, n := range names {
		if n != "_" {
			sc[n] = vals[i]
		}
	}
	return true
}

// reBlock translates a statement list every path of which must end in a `return`; mode: string | append | pair.
func (c *octx) reBlock(stmts []ast.Stmt, sc oscope, mode string, depth int) *lt {
	if len(stmts) == 0 {
		return ls("RE.opaque", "no return")
	}
	if depth > 40 {
		return ls("RE.opaque", stmtsText(stmts))
	}
	rest := stmts[1:]
	join := func(body []ast.Stmt) []ast.Stmt {
		return append(append([]ast.Stmt{}, body...), rest...)
	}
	switch s := stmts[0].(type) {
	case *ast.ReturnStmt:
		switch {
		case mode == "string" && len(s.Results) == 1:
			if r := c.reExpr(s.Results[0], sc); r.kind == "sval" {
				return r.t
			}
			if r := c.reExpr(s.Results[0], sc); r.kind == "narep" {
				return lh("RE.naRep")
			}
		case mode == "append" && len(s.Results) == 1:
			if r := c.reExpr(s.Results[0], sc); r.kind == "bval" {
				return r.t
			}
		case mode == "pair" && len(s.Results) == 2:
			r := c.reExpr(s.Results[0], sc)
			if b, ok := oBoolLit(sc, s.Results[1]); ok && r.kind == "sval" {
				return lh("RE.pair", r.t, lh(strconv.FormatBool(b)))
			}
		}
	case *ast.AssignStmt:
		sc = sc.clone()
		if c.reDefine(s, sc) {
			return c.reBlock(rest, sc, mode, depth+1)
		}
	case *ast.BlockStmt:
		return c.reBlock(join(s.List), sc.clone(), mode, depth+1)
	case *ast.IfStmt:
		sc = sc.clone()
		if s.Init != nil {
			as, ok := s.Init.(*ast.AssignStmt)
			if !ok || !c.reDefine(as, sc) {
				break
			}
		}
		cond := c.reCond(s.Cond, sc)
		then := c.reBlock(join(s.Body.List), sc, mode, depth+1)
		var els *lt
		switch e := s.Else.(type) {
		case nil:
			els = c.reBlock(rest, sc, mode, depth+1)
		case *ast.BlockStmt:
			els = c.reBlock(join(e.List), sc, mode, depth+1)
		case *ast.IfStmt:
			els = c.reBlock(join([]ast.Stmt{e}), sc, mode, depth+1)
		default:
			els = ls("RE.opaque", src(s.Else))
		}
		return lh("RE.ite", cond, then, els)
	}
	return ls("RE.opaque", stmtsText(stmts))
}

// renderAst translates StringAt (roles: ix, narep), AppendByteStringAt (buf, ix) or a helper (ix).
func (c *octx) renderAst(fd *ast.FuncDecl, roles []string, mode string) *lt {
	sc := oscope{}
	if !recvIs(fd, "Column") {
		return ls("RE.opaque", "receiver")
	}
	for _, n := range fd.Recv.List[0].Names {
		sc[n.Name] = osym{kind: "recv"}
	}
	names := paramNames(fd)
	if len(names) != len(roles) {
		return ls("RE.opaque", "parameters")
	}
	for i, n := range names {
		if n != "_" {
			sc[n] = osym{kind: roles[i]}
		}
	}
	return c.reBlock(fd.Body.List, sc, mode, 0)
}

// enumNullCode reads `func (v enumVal) isNull() bool { return v == nullValue }` of ecolumn: the code the method compares
// its receiver with, constants resolved to their integer value; "none" when the method is anything else.
func enumNullCode(fns map[string]*ast.FuncDecl, files map[string]*ast.File) string {
	fd, ok := fns["enumVal.isNull"]
	if !ok || !recvIs(fd, "enumVal") || len(fd.Recv.List[0].Names) != 1 || len(paramNames(fd)) != 0 || len(fd.Body.List) != 1 {
		return "none"
	}
	recv := fd.Recv.List[0].Names[0].Name
	ret, ok := fd.Body.List[0].(*ast.ReturnStmt)
	if !ok || len(ret.Results) != 1 {
		return "none"
	}
	be, ok := unparen(ret.Results[0]).(*ast.BinaryExpr)
	if !ok || be.Op != token.EQL {
		return "none"
	}
	x, y := unparen(be.X), unparen(be.Y)
	if id, isID := y.(*ast.Ident); isID && id.Name == recv {
		x, y = y, x
	}
	if id, isID := x.(*ast.Ident); !isID || id.Name != recv {
		return "none"
	}
	if id, isID := y.(*ast.Ident); isID && id.Name == recv {
		return "none"
	}
	if v, ok := intConstExpr(files, y, 0); ok && v >= 0 && v < 1<<16 {
		return fmt.Sprintf("some %d", v)
	}
	return "none"
}

// observeLean renders QF/Gen/Observe.lean.
func observeLean(pkgs []string, fns map[string]map[string]*ast.FuncDecl, imports map[string]map[string]string, ecolFiles map[string]*ast.File) string {
	var eqs, sas, aps, helpers []string
	for _, p := range pkgs {
		c := &octx{pkg: p, imports: imports[p]}
		eq := ls("EQ.opaque", "?missing")
		if fd, ok := fns[p]["Column.Equals"]; ok {
			eq = c.equalsAst(fd)
		}
		sa := ls("RE.opaque", "?missing")
		if fd, ok := fns[p]["Column.StringAt"]; ok {
			sa = c.renderAst(fd, []string{"ix", "narep"}, "string")
		}
		ap := ls("RE.opaque", "?missing")
		if fd, ok := fns[p]["Column.AppendByteStringAt"]; ok {
			ap = c.renderAst(fd, []string{"buf", "ix"}, "append")
		}
		eqs = append(eqs, fmt.Sprintf("  (%s, %s)", leanStr(p), eq.lean()))
		sas = append(sas, fmt.Sprintf("  (%s, %s)", leanStr(p), sa.lean()))
		aps = append(aps, fmt.Sprintf("  (%s, %s)", leanStr(p), ap.lean()))
		if p == "scolumn" {
			for _, h := range []string{"stringAt", "bytesAt"} {
				t := ls("RE.opaque", "?missing")
				if fd, ok := fns[p]["Column."+h]; ok {
					t = c.renderAst(fd, []string{"ix"}, "pair")
				}
				helpers = append(helpers, fmt.Sprintf("  (%s, %s)", leanStr(p+"."+h), t.lean()))
			}
		}
	}
	var b strings.Builder
	b.WriteString("/- GENERATED on every run by /verif/go/cmd/extract from /repo's source (tie T1). Do not edit. -/\nimport QF.Core.OExpr\nnamespace QF.Gen\n\n")
	b.WriteString("/-- `Column.Equals(index, other, otherIndex)` of every column package as a term of `QF.EQ`, by role: (package, term) -/\n")
	b.WriteString("def equalsAst : List (String × EQ) := [\n" + strings.Join(eqs, ",\n") + "]\n\n")
	b.WriteString("/-- `Column.StringAt(i, naRep)` of every column package as a term of `QF.RE`: (package, term) -/\n")
	b.WriteString("def stringAtAst : List (String × RE) := [\n" + strings.Join(sas, ",\n") + "]\n\n")
	b.WriteString("/-- `Column.AppendByteStringAt(buf, i)` of every column package as a term of `QF.RE`: (package, term) -/\n")
	b.WriteString("def appendAst : List (String × RE) := [\n" + strings.Join(aps, ",\n") + "]\n\n")
	b.WriteString("/-- the helpers `stringAt(i)` / `bytesAt(i)` of scolumn the functions above call: (name, term) -/\n")
	b.WriteString("def observeHelpers : List (String × RE) := [\n" + strings.Join(helpers, ",\n") + "]\n\n")
	b.WriteString("/-- the code `enumVal.isNull()` of ecolumn compares its receiver with (`return v == nullValue`, constants resolved) -/\n")
	b.WriteString("def enumNullCode : Option Nat := " + enumNullCode(fns["ecolumn"], ecolFiles) + "\n\nend QF.Gen\n")
	return b.String()
}
