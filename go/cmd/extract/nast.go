package main

// Translation go/ast → CK / LS / NS (lean/QF/Core/Construct.lean) of the CONSTRUCTION logic of /repo/qframe.go:
//
//	func createColumn(name string, data interface{}, config *newqf.Config) (column.Column, error)   → [(DKind, CK)]
//	func New(data map[string]types.DataSlice, fns ...newqf.ConfigFunc) QFrame   (after its guard prefix) → [NS]
//
// `createColumn` is executed SYMBOLICALLY once for every kind of data value (`bKinds`); with the kind fixed, type
// assertions and the type switch are decided at translation time. What remains: the look-up of the name in the enum
// declarations (→ lookupEnum, the path splits where the look-up is made), `delete` of the declaration (→ consume), the
// constructor calls (→ make / makeEnum; the error test that follows an enum constructor is decided on each of its two
// paths), the sign test of the count of a constant (→ ifCountNeg; the helper that fetches the count, a function of the
// package that only inspects the data value, is executed for the kind), the returns.
//
// Everything is found by ROLE. `New`: the function without receiver whose first parameter is a map with string keys and
// whose result is `QFrame`. Its tail starts with the `:=` statements directly in front of the `for … range` over the
// `[]string` field of the configuration whose body calls a function with (name, data[name], config) and two results —
// that function is `createColumn`. The enum declarations are the `map[string][]string` field of the configuration struct
// (config/newqf). Constant structs: struct types of the root package with two fields, the second an `int` (count), named
// by the type of the first (value). Constructors: by package directory (`icolumn` → int …) and signature.

import (
	"fmt"
	"go/ast"
	"go/token"
	"path/filepath"
	"strconv"
	"strings"
)

var bKinds = []string{"ints", "floats", "bools", "strs", "ptrs", "constInt", "constFloat", "constBool", "constStr", "ecol", "blob", "col", "other"}

var sliceKind = map[string]string{"[]int": "ints", "[]float64": "floats", "[]bool": "bools", "[]string": "strs", "[]*string": "ptrs"}
var kindSlice = map[string]string{"ints": "[]int", "floats": "[]float64", "bools": "[]bool", "strs": "[]string", "ptrs": "[]*string"}
var constKind = map[string]string{"int": "constInt", "float64": "constFloat", "bool": "constBool", "*string": "constStr"}
var pkgCType = map[string]string{"icolumn": "CType.int", "fcolumn": "CType.float", "bcolumn": "CType.bool", "scolumn": "CType.string", "ecolumn": "CType.enum"}

type constStruct struct{ kind, val, count string }

type bctx struct {
	repo     string
	root     map[string]*ast.File
	fns      map[string]*ast.FuncDecl
	imports  map[string]string // import name → path (root package)
	cfgOrder string            // fields of the configuration struct
	cfgEnums string
	consts   map[string]constStruct // type name → roles of its fields
	pkgFns   map[string]map[string]*ast.FuncDecl
	create   *ast.FuncDecl
}

func ckop(n ast.Node) *lt   { return ls("CK.opaque", src(n)) }
func ckopText(s string) *lt { return ls("CK.opaque", s) }

// directory name of the package an unbound identifier is an import name of ("" if none)
func (c *bctx) pkgDir(e ast.Expr, bound func(string) bool) string {
	id, ok := e.(*ast.Ident)
	if !ok || bound(id.Name) {
		return ""
	}
	p, ok := c.imports[id.Name]
	if !ok || p == "?ambiguous" {
		return ""
	}
	return p[strings.LastIndex(p, "/")+1:]
}

func (c *bctx) pkgPath(e ast.Expr) string {
	if id, ok := e.(*ast.Ident); ok {
		return c.imports[id.Name]
	}
	return ""
}

func (c *bctx) funcsOf(dir string) map[string]*ast.FuncDecl {
	if f, ok := c.pkgFns[dir]; ok {
		return f
	}
	f := funcDecls(parseDir(filepath.Join(c.repo, "internal", dir)))
	c.pkgFns[dir] = f
	return f
}

func flatTypes(fl *ast.FieldList) []string {
	var res []string
	if fl == nil {
		return res
	}
	for _, f := range fl.List {
		n := len(f.Names)
		if n == 0 {
			n = 1
		}
		for i := 0; i < n; i++ {
			res = append(res, src(f.Type))
		}
	}
	return res
}

func (c *bctx) scan() {
	c.consts = map[string]constStruct{}
	for _, f := range c.root {
		for _, d := range f.Decls {
			gd, ok := d.(*ast.GenDecl)
			if !ok || gd.Tok != token.TYPE {
				continue
			}
			for _, sp := range gd.Specs {
				ts, ok := sp.(*ast.TypeSpec)
				if !ok {
					continue
				}
				st, ok := ts.Type.(*ast.StructType)
				if !ok {
					continue
				}
				var names, types []string
				for _, fl := range st.Fields.List {
					for _, n := range fl.Names {
						names = append(names, n.Name)
						types = append(types, src(fl.Type))
					}
					if len(fl.Names) == 0 {
						names = append(names, "")
						types = append(types, src(fl.Type))
					}
				}
				if len(names) == 2 && types[1] == "int" && names[0] != "" && names[1] != "" {
					if k, ok := constKind[types[0]]; ok {
						c.consts[ts.Name.Name] = constStruct{k, names[0], names[1]}
					}
				}
			}
		}
	}
	// the configuration struct of config/newqf: a []string field (order) and a map[string][]string field (enum declarations)
	for _, f := range parseDir(filepath.Join(c.repo, "config", "newqf")) {
		for _, d := range f.Decls {
			gd, ok := d.(*ast.GenDecl)
			if !ok || gd.Tok != token.TYPE {
				continue
			}
			for _, sp := range gd.Specs {
				ts, ok := sp.(*ast.TypeSpec)
				if !ok {
					continue
				}
				st, ok := ts.Type.(*ast.StructType)
				if !ok {
					continue
				}
				order, enums := "", ""
				for _, fl := range st.Fields.List {
					for _, n := range fl.Names {
						switch src(fl.Type) {
						case "[]string":
							if order == "" {
								order = n.Name
							}
						case "map[string][]string":
							if enums == "" {
								enums = n.Name
							}
						}
					}
				}
				if order != "" && enums != "" && c.cfgOrder == "" {
					c.cfgOrder, c.cfgEnums = order, enums
				}
			}
		}
	}
}

// ---------------------------------------------------------------------------------------------------------------
// createColumn

// bv is a symbolic value.
type bv struct {
	kind string
	// name · data (the interface parameter) · config · enums (config.<enums>) · typed (the data asserted to its type; s: kind) ·
	// val / count (fields of a typed constant struct) · decl (the declaration found) · bool (b) · result · err (s: nil | failed) ·
	// nil · opaque
	s string
	b bool
}

type bscope struct {
	vars   map[string]*bv
	parent *bscope
}

func (s *bscope) get(n string) (*bv, bool) {
	for f := s; f != nil; f = f.parent {
		if v, ok := f.vars[n]; ok {
			return v, true
		}
	}
	return nil, false
}
func (s *bscope) push() *bscope { return &bscope{vars: map[string]*bv{}, parent: s} }
func (s *bscope) set(n string, v *bv) bool {
	for f := s; f != nil; f = f.parent {
		if _, ok := f.vars[n]; ok {
			f.vars[n] = v
			return true
		}
	}
	return false
}
func (s *bscope) clone() *bscope {
	if s == nil {
		return nil
	}
	r := &bscope{vars: map[string]*bv{}, parent: s.parent.clone()}
	for k, v := range s.vars {
		cp := *v
		r.vars[k] = &cp
	}
	return r
}
func (s *bscope) bound(n string) bool { _, ok := s.get(n); return ok }

var bOpaque = &bv{kind: "opaque"}

// bexec executes createColumn for one kind of data
type bexec struct {
	*bctx
	kind string // the kind of the data value now (a conversion changes it)
}

var bPush = &ast.BadStmt{From: 12}
var bPop = &ast.BadStmt{From: 13}

func bscoped(body, rest []ast.Stmt) []ast.Stmt {
	return concat(concat([]ast.Stmt{bPush}, body), concat([]ast.Stmt{bPop}, rest))
}

// does a type expression of an assertion / a case match the kind?
func (x *bexec) typeMatches(t ast.Expr, sc *bscope) bool {
	if t == nil {
		return false
	}
	switch e := t.(type) {
	case *ast.ArrayType:
		return sliceKind[src(e)] == x.kind && x.kind != ""
	case *ast.Ident:
		if e.Name == "nil" {
			return false
		}
		if cs, ok := x.consts[e.Name]; ok {
			return cs.kind == x.kind
		}
	case *ast.SelectorExpr:
		switch dir := x.pkgDir(e.X, sc.bound); {
		case dir == "ecolumn" && e.Sel.Name == "Column":
			return x.kind == "ecol"
		case dir == "column" && strings.HasSuffix(x.pkgPath(e.X), "/internal/column") && e.Sel.Name == "Column":
			return x.kind == "ecol" || x.kind == "col"
		case dir == "strings" && strings.HasSuffix(x.pkgPath(e.X), "/internal/strings"):
			return x.kind == "blob"
		}
	}
	return false
}

func (x *bexec) eval(e ast.Expr, sc *bscope) *bv {
	switch t := unparen(e).(type) {
	case *ast.Ident:
		if v, ok := sc.get(t.Name); ok {
			return v
		}
		switch t.Name {
		case "nil":
			return &bv{kind: "nil"}
		case "true":
			return &bv{kind: "bool", b: true}
		case "false":
			return &bv{kind: "bool", b: false}
		}
	case *ast.SelectorExpr:
		v := x.eval(t.X, sc)
		switch v.kind {
		case "config":
			if t.Sel.Name == x.cfgEnums && x.cfgEnums != "" {
				return &bv{kind: "enums"}
			}
		case "typed":
			for _, cs := range x.consts {
				if cs.kind == v.s {
					switch t.Sel.Name {
					case cs.val:
						return &bv{kind: "val"}
					case cs.count:
						return &bv{kind: "count"}
					}
				}
			}
			if v.s == "blob" {
				return &bv{kind: "blobfield", s: t.Sel.Name}
			}
		}
	case *ast.UnaryExpr:
		if t.Op == token.NOT {
			if v := x.eval(t.X, sc); v.kind == "bool" {
				return &bv{kind: "bool", b: !v.b}
			}
		}
	case *ast.BasicLit:
		if t.Kind == token.INT {
			return &bv{kind: "int", s: t.Value}
		}
	case *ast.BinaryExpr:
		switch t.Op {
		case token.LAND, token.LOR:
			// the left operand must be known; Go evaluates the right one only if it decides
			a := x.eval(t.X, sc)
			if a.kind != "bool" {
				return bOpaque
			}
			if a.b == (t.Op == token.LOR) {
				return a
			}
			return x.eval(t.Y, sc)
		case token.LSS, token.GTR:
			a, b := x.eval(t.X, sc), x.eval(t.Y, sc)
			if t.Op == token.GTR {
				a, b = b, a
			}
			// <count> < 0
			if a.kind == "count" && b.kind == "int" && b.s == "0" {
				return &bv{kind: "countNeg"}
			}
			return bOpaque
		}
		if t.Op == token.EQL || t.Op == token.NEQ {
			a, b := x.eval(t.X, sc), x.eval(t.Y, sc)
			if b.kind == "err" && a.kind == "nil" {
				a, b = b, a
			}
			if a.kind == "err" && b.kind == "nil" && (a.s == "nil" || a.s == "failed") {
				return &bv{kind: "bool", b: (a.s == "nil") == (t.Op == token.EQL)}
			}
		}
	}
	return bOpaque
}

// a call that makes a non-nil error
func (x *bexec) isErrCall(e ast.Expr, sc *bscope) bool {
	call, ok := unparen(e).(*ast.CallExpr)
	if !ok {
		return false
	}
	sel, ok := call.Fun.(*ast.SelectorExpr)
	if !ok {
		return false
	}
	id, ok := sel.X.(*ast.Ident)
	if !ok || sc.bound(id.Name) {
		return false
	}
	p := x.imports[id.Name]
	if !(strings.HasSuffix(p, "/qerrors") || p == "errors" || p == "fmt") {
		return false
	}
	switch sel.Sel.Name {
	case "New", "Propagate", "Errorf":
		return true
	}
	return false
}

// constructor classifies `pkg.F(args)`: (term of Ctor / ECtor, fallible) or nil
func (x *bexec) constructor(call *ast.CallExpr, sc *bscope) (*lt, bool) {
	sel, ok := call.Fun.(*ast.SelectorExpr)
	if !ok {
		return nil, false
	}
	dir := x.pkgDir(sel.X, sc.bound)
	cty, ok := pkgCType[dir]
	if !ok || !strings.HasSuffix(x.pkgPath(sel.X), "/internal/"+dir) {
		return nil, false
	}
	fd, ok := x.funcsOf(dir)[sel.Sel.Name]
	if !ok || fd.Recv != nil {
		return nil, false
	}
	params, results := flatTypes(fd.Type.Params), flatTypes(fd.Type.Results)
	args := make([]*bv, len(call.Args))
	for i, a := range call.Args {
		args[i] = x.eval(a, sc)
	}
	if len(args) != len(params) {
		return nil, false
	}
	sig := strings.Join(params, ", ") + " → " + strings.Join(results, ", ")
	typedAs := func(v *bv, ty string) bool { return v.kind == "typed" && kindSlice[v.s] == ty }
	switch {
	case len(params) == 1 && sig == params[0]+" → Column" && dir != "ecolumn":
		if typedAs(args[0], params[0]) {
			return lh("Ctor.cells", lh(cty)), false
		}
	case len(params) == 2 && params[1] == "int" && len(results) == 1 && results[0] == "Column" && dir != "ecolumn":
		if args[0].kind == "val" && args[1].kind == "count" && constKind[params[0]] == x.kind {
			return lh("Ctor.const", lh(cty)), false
		}
	case dir == "scolumn" && len(params) == 2 && params[1] == "[]byte" && len(results) == 1 && results[0] == "Column":
		if args[0].kind == "blobfield" && args[1].kind == "blobfield" && args[0].s != args[1].s {
			return lh("Ctor.blob"), false
		}
	case dir == "ecolumn" && sig == "[]*string, []string → Column, error":
		if typedAs(args[0], "[]*string") && args[1].kind == "decl" {
			return lh("ECtor.cells"), true
		}
	case dir == "ecolumn" && sig == "*string, int, []string → Column, error":
		if args[0].kind == "val" && args[1].kind == "count" && x.kind == "constStr" && args[2].kind == "decl" {
			return lh("ECtor.const"), true
		}
	}
	return nil, false
}

// `<enums>[name]`
func (x *bexec) isEnumLookup(e ast.Expr, sc *bscope) bool {
	ix, ok := unparen(e).(*ast.IndexExpr)
	return ok && x.eval(ix.X, sc).kind == "enums" && x.eval(ix.Index, sc).kind == "name"
}

// sp := make([]*string, len(sc)); for i := range sc { sp[i] = &sc[i] }; data = sp
func (x *bexec) isStrsToPtrs(body []ast.Stmt, scVar string, sc *bscope) bool {
	if len(body) != 3 {
		return false
	}
	s1, ok1 := body[0].(*ast.AssignStmt)
	s2, ok2 := body[1].(*ast.RangeStmt)
	s3, ok3 := body[2].(*ast.AssignStmt)
	if !ok1 || !ok2 || !ok3 || s1.Tok != token.DEFINE || len(s1.Lhs) != 1 || len(s1.Rhs) != 1 || s3.Tok != token.ASSIGN || len(s3.Lhs) != 1 || len(s3.Rhs) != 1 {
		return false
	}
	p, ok := s1.Lhs[0].(*ast.Ident)
	if !ok || src(s1.Rhs[0]) != "make([]*string, len("+scVar+"))" {
		return false
	}
	k, ok := s2.Key.(*ast.Ident)
	if !ok || s2.Value != nil || s2.Tok != token.DEFINE || src(s2.X) != scVar || len(s2.Body.List) != 1 {
		return false
	}
	if src(s2.Body.List[0]) != p.Name+"["+k.Name+"] = &"+scVar+"["+k.Name+"]" {
		return false
	}
	return x.eval(s3.Lhs[0], sc).kind == "data" && src(s3.Rhs[0]) == p.Name
}

func (x *bexec) exec(stmts []ast.Stmt, sc *bscope) *lt {
	if len(stmts) == 0 {
		return ckopText("missing return")
	}
	st, rest := stmts[0], stmts[1:]
	switch st {
	case bPush:
		return x.exec(rest, sc.push())
	case bPop:
		return x.exec(rest, sc.parent)
	}
	switch s := st.(type) {
	case *ast.BlockStmt:
		return x.exec(bscoped(s.List, rest), sc)
	case *ast.DeclStmt:
		gd, ok := s.Decl.(*ast.GenDecl)
		if !ok || gd.Tok != token.VAR {
			return ckop(s)
		}
		for _, sp := range gd.Specs {
			vs, ok := sp.(*ast.ValueSpec)
			if !ok || len(vs.Values) != 0 || vs.Type == nil {
				return ckop(s)
			}
			for _, n := range vs.Names {
				switch t := vs.Type.(type) {
				case *ast.Ident:
					if t.Name != "error" {
						return ckop(s)
					}
					sc.vars[n.Name] = &bv{kind: "err", s: "nil"}
				case *ast.SelectorExpr:
					// the result variable: of the interface type the function returns
					if x.create.Type.Results == nil || src(x.create.Type.Results.List[0].Type) != src(t) {
						return ckop(s)
					}
					sc.vars[n.Name] = &bv{kind: "result"}
				default:
					return ckop(s)
				}
			}
		}
		return x.exec(rest, sc)
	case *ast.ReturnStmt:
		if len(s.Results) != 2 {
			return ckop(s)
		}
		a, b := x.eval(s.Results[0], sc), x.eval(s.Results[1], sc)
		switch {
		case a.kind == "result" && b.kind == "nil":
			return lh("CK.retCol")
		case a.kind == "nil" && (x.isErrCall(s.Results[1], sc) || (b.kind == "err" && b.s == "failed")):
			return lh("CK.retErr")
		}
		return ckop(s)
	case *ast.ExprStmt:
		// delete(config.<enums>, name)
		if call, ok := s.X.(*ast.CallExpr); ok && len(call.Args) == 2 {
			if id, ok := call.Fun.(*ast.Ident); ok && id.Name == "delete" && !sc.bound("delete") &&
				x.eval(call.Args[0], sc).kind == "enums" && x.eval(call.Args[1], sc).kind == "name" {
				return lh("CK.consume", x.exec(rest, sc))
			}
		}
		return ckop(s)
	case *ast.AssignStmt:
		return x.assign(s, rest, sc)
	case *ast.IfStmt:
		return x.ifStmt(s, rest, sc)
	case *ast.TypeSwitchStmt:
		return x.typeSwitch(s, rest, sc)
	}
	return ckop(st)
}

func (x *bexec) assign(s *ast.AssignStmt, rest []ast.Stmt, sc *bscope) *lt {
	idents := make([]string, len(s.Lhs))
	for i, l := range s.Lhs {
		id, ok := l.(*ast.Ident)
		if !ok {
			return ckop(s)
		}
		idents[i] = id.Name
	}
	if len(s.Rhs) != 1 {
		return ckop(s)
	}
	rhs := unparen(s.Rhs[0])
	// values, ok := config.<enums>[name]
	if len(idents) == 2 && s.Tok == token.DEFINE && x.isEnumLookup(rhs, sc) {
		hit, miss := sc.clone(), sc.clone()
		if idents[0] != "_" {
			hit.vars[idents[0]] = &bv{kind: "decl"}
			miss.vars[idents[0]] = &bv{kind: "nil"}
		}
		if idents[1] != "_" {
			hit.vars[idents[1]] = &bv{kind: "bool", b: true}
			miss.vars[idents[1]] = &bv{kind: "bool", b: false}
		}
		return lh("CK.lookupEnum", x.exec(rest, hit), x.exec(rest, miss))
	}
	if s.Tok != token.ASSIGN {
		return ckop(s)
	}
	switch len(idents) {
	case 1:
		tgt, ok := sc.get(idents[0])
		if !ok || tgt.kind != "result" {
			return ckop(s)
		}
		// <result> = t
		if v := x.eval(rhs, sc); v.kind == "typed" && (v.s == "ecol" || v.s == "col") {
			return lh("CK.make", lh("Ctor.given"), x.exec(rest, sc))
		}
		if call, ok := rhs.(*ast.CallExpr); ok {
			if ctor, fallible := x.constructor(call, sc); ctor != nil && !fallible {
				return lh("CK.make", ctor, x.exec(rest, sc))
			}
		}
	case 2:
		tgt, ok1 := sc.get(idents[0])
		ev, ok2 := sc.get(idents[1])
		call, ok3 := rhs.(*ast.CallExpr)
		if !ok1 || !ok2 || !ok3 || tgt.kind != "result" || ev.kind != "err" {
			return ckop(s)
		}
		if ctor, fallible := x.constructor(call, sc); ctor != nil && fallible {
			failed, fine := sc.clone(), sc.clone()
			failed.set(idents[1], &bv{kind: "err", s: "failed"})
			fine.set(idents[1], &bv{kind: "err", s: "nil"})
			return lh("CK.makeEnum", ctor, x.exec(rest, failed), x.exec(rest, fine))
		}
	}
	return ckop(s)
}

func (x *bexec) ifStmt(s *ast.IfStmt, rest []ast.Stmt, sc *bscope) *lt {
	thenB := bscoped(s.Body.List, rest)
	elseB := bscoped(blockOf(s.Else), rest)
	if s.Init != nil {
		as, ok := s.Init.(*ast.AssignStmt)
		if !ok || as.Tok != token.DEFINE || len(as.Lhs) != 2 || len(as.Rhs) != 1 {
			return ckop(s)
		}
		v, ok1 := as.Lhs[0].(*ast.Ident)
		okv, ok2 := as.Lhs[1].(*ast.Ident)
		if !ok1 || !ok2 {
			return ckop(s)
		}
		inner := sc.push()
		after := concat([]ast.Stmt{bPop}, rest)
		thenB, elseB = bscoped(s.Body.List, after), bscoped(blockOf(s.Else), after)
		rhs := unparen(as.Rhs[0])
		// if count, ok := <helper>(data); <condition over them> { … }: the helper (a function of the package that only inspects
		// the data value) is executed for the kind
		if call, ok := rhs.(*ast.CallExpr); ok {
			vals, ok := x.callHelper(call, sc)
			if !ok || len(vals) != 2 {
				return ckop(s)
			}
			if v.Name != "_" {
				inner.vars[v.Name] = vals[0]
			}
			if okv.Name != "_" {
				inner.vars[okv.Name] = vals[1]
			}
			return x.branch(s, x.eval(s.Cond, inner), thenB, elseB, inner)
		}
		cond, isId := unparen(s.Cond).(*ast.Ident)
		if !isId || cond.Name != okv.Name || okv.Name == "_" {
			return ckop(s)
		}
		// if sc, ok := data.(T); ok { … }
		if ta, ok := rhs.(*ast.TypeAssertExpr); ok && ta.Type != nil && x.eval(ta.X, sc).kind == "data" {
			if !x.typeMatches(ta.Type, sc) {
				return x.exec(elseB, inner)
			}
			if x.kind == "strs" && s.Else == nil && x.isStrsToPtrs(s.Body.List, v.Name, sc) {
				sub := *x
				sub.kind = "ptrs"
				return lh("CK.strsToPtrs", sub.exec(rest, sc))
			}
			return ckop(s)
		}
		// if values, ok := config.<enums>[name]; ok { … } else { … }
		if x.isEnumLookup(rhs, sc) {
			hit, miss := inner.clone(), inner.clone()
			if v.Name != "_" {
				hit.vars[v.Name] = &bv{kind: "decl"}
				miss.vars[v.Name] = &bv{kind: "nil"}
			}
			return lh("CK.lookupEnum", x.exec(thenB, hit), x.exec(elseB, miss))
		}
		return ckop(s)
	}
	return x.branch(s, x.eval(s.Cond, sc), thenB, elseB, sc)
}

// the two branches of an if statement whose condition has the value v
func (x *bexec) branch(s *ast.IfStmt, v *bv, thenB, elseB []ast.Stmt, sc *bscope) *lt {
	switch v.kind {
	case "bool":
		if v.b {
			return x.exec(thenB, sc)
		}
		return x.exec(elseB, sc)
	case "countNeg":
		// <count of the constant> < 0: known at run time only
		return lh("CK.ifCountNeg", x.exec(thenB, sc.clone()), x.exec(elseB, sc.clone()))
	}
	return ckop(s)
}

// callHelper executes `f(data)` for a function of the package without receiver whose only parameter is the data value and
// whose body is type switches on it and returns: the values it returns for the kind under execution
func (x *bexec) callHelper(call *ast.CallExpr, sc *bscope) ([]*bv, bool) {
	id, ok := call.Fun.(*ast.Ident)
	if !ok || sc.bound(id.Name) || len(call.Args) != 1 || x.eval(call.Args[0], sc).kind != "data" {
		return nil, false
	}
	fd, ok := x.fns[id.Name]
	if !ok || fd.Recv != nil || fd == x.create {
		return nil, false
	}
	names := paramNames(fd)
	types := flatTypes(fd.Type.Params)
	if len(names) != 1 || (types[0] != "interface{}" && types[0] != "any") {
		return nil, false
	}
	inner := &bscope{vars: map[string]*bv{}}
	if names[0] != "_" {
		inner.vars[names[0]] = &bv{kind: "data"}
	}
	return x.helperBody(fd.Body.List, inner)
}

func (x *bexec) helperBody(stmts []ast.Stmt, sc *bscope) ([]*bv, bool) {
	for _, st := range stmts {
		switch s := st.(type) {
		case *ast.ReturnStmt:
			var vals []*bv
			for _, r := range s.Results {
				v := x.eval(r, sc)
				if v.kind == "opaque" {
					return nil, false
				}
				vals = append(vals, v)
			}
			return vals, true
		case *ast.TypeSwitchStmt:
			if s.Init != nil {
				return nil, false
			}
			bind := ""
			var subject ast.Expr
			switch a := s.Assign.(type) {
			case *ast.AssignStmt:
				if len(a.Lhs) != 1 || len(a.Rhs) != 1 || a.Tok != token.DEFINE {
					return nil, false
				}
				bind = a.Lhs[0].(*ast.Ident).Name
				subject = a.Rhs[0]
			case *ast.ExprStmt:
				subject = a.X
			default:
				return nil, false
			}
			ta, ok := subject.(*ast.TypeAssertExpr)
			if !ok || ta.Type != nil || x.eval(ta.X, sc).kind != "data" {
				return nil, false
			}
			var body []ast.Stmt
			found, single := false, false
			var deflt *ast.CaseClause
			for _, cl := range s.Body.List {
				cc := cl.(*ast.CaseClause)
				if cc.List == nil {
					deflt = cc
					continue
				}
				for _, t := range cc.List {
					if !found && x.typeMatches(t, sc) {
						body, found, single = cc.Body, true, len(cc.List) == 1
					}
				}
			}
			inner := sc.push()
			switch {
			case found && single && bind != "" && bind != "_":
				inner.vars[bind] = &bv{kind: "typed", s: x.kind}
			case found || deflt != nil:
				if !found {
					body = deflt.Body
				}
				if bind != "" && bind != "_" {
					inner.vars[bind] = &bv{kind: "data"}
				}
			default:
				continue // no clause for this kind: the switch does nothing
			}
			if vals, ok := x.helperBody(body, inner); ok {
				return vals, true
			}
			// the clause fell through
			for _, b := range body {
				if _, isRet := b.(*ast.ReturnStmt); !isRet {
					return nil, false
				}
			}
		default:
			return nil, false
		}
	}
	return nil, false
}

func (x *bexec) typeSwitch(s *ast.TypeSwitchStmt, rest []ast.Stmt, sc *bscope) *lt {
	if s.Init != nil {
		return ckop(s)
	}
	bind := ""
	var subject ast.Expr
	switch a := s.Assign.(type) {
	case *ast.AssignStmt:
		if len(a.Lhs) != 1 || len(a.Rhs) != 1 || a.Tok != token.DEFINE {
			return ckop(s)
		}
		bind = a.Lhs[0].(*ast.Ident).Name
		subject = a.Rhs[0]
	case *ast.ExprStmt:
		subject = a.X
	default:
		return ckop(s)
	}
	ta, ok := subject.(*ast.TypeAssertExpr)
	if !ok || ta.Type != nil || x.eval(ta.X, sc).kind != "data" {
		return ckop(s)
	}
	var body []ast.Stmt
	found := false
	var deflt *ast.CaseClause
	for _, cl := range s.Body.List {
		cc := cl.(*ast.CaseClause)
		if cc.List == nil {
			deflt = cc
			continue
		}
		for _, t := range cc.List {
			if !found && x.typeMatches(t, sc) {
				body, found = cc.Body, true
				if len(cc.List) != 1 {
					bind = "" // the variable keeps the interface type
				}
			}
		}
	}
	inner := sc.push()
	if !found {
		if deflt == nil {
			return x.exec(rest, sc)
		}
		body = deflt.Body
		if bind != "" && bind != "_" {
			inner.vars[bind] = &bv{kind: "data"}
		}
	} else if bind != "" && bind != "_" {
		inner.vars[bind] = &bv{kind: "typed", s: x.kind}
	}
	return x.exec(concat(body, concat([]ast.Stmt{bPop}, rest)), inner)
}

// createColumnAsts: one term per kind
func (c *bctx) createColumnAsts() []string {
	var res []string
	for _, k := range bKinds {
		var t *lt
		if c.create == nil {
			t = ckopText("the function New's loop calls with (name, data[name], config) was not found")
		} else {
			sc := &bscope{vars: map[string]*bv{}}
			roles := []string{"name", "data", "config"}
			names := paramNames(c.create)
			types := flatTypes(c.create.Type.Params)
			okSig := len(names) == 3 && types[0] == "string" && (types[1] == "interface{}" || types[1] == "any") && strings.HasPrefix(types[2], "*")
			if !okSig {
				t = ckopText("signature " + strings.Join(types, ", "))
			} else {
				for i, n := range names {
					if n != "_" {
						sc.vars[n] = &bv{kind: roles[i]}
					}
				}
				x := &bexec{bctx: c, kind: k}
				t = x.exec(c.create.Body.List, sc)
			}
		}
		res = append(res, fmt.Sprintf("  (DKind.%s, %s)", k, t.lean()))
	}
	return res
}

// ---------------------------------------------------------------------------------------------------------------
// New after its guard prefix

func nsop(n ast.Node) *lt { return ls("NS.opaque", src(n)) }
func lsop(n ast.Node) *lt { return ls("LS.opaque", src(n)) }

type ntail struct {
	*bctx
	data, config     string // parameters / variables of New
	cols, byName     string // the two containers
	lenA, lenB       string // the two int variables, in declaration order
	first, current   string
	namedType        string
	nmName, nmPos    string // fields of namedColumn
	frameCols        string // fields of QFrame
	frameByName      string
	frameIndex       string
	frameErr         string
	loopI, loopName  string
	created, dataVar string
}

// the function without receiver: (map[string]…, …) QFrame
func (c *bctx) newFn() *ast.FuncDecl {
	var found *ast.FuncDecl
	for _, fd := range c.fns {
		if fd.Recv != nil || fd.Type.Params == nil || len(fd.Type.Params.List) == 0 || fd.Type.Results == nil || len(fd.Type.Results.List) != 1 || src(fd.Type.Results.List[0].Type) != "QFrame" {
			continue
		}
		mt, ok := fd.Type.Params.List[0].Type.(*ast.MapType)
		if !ok || src(mt.Key) != "string" || len(fd.Type.Params.List[0].Names) != 1 {
			continue
		}
		if found != nil {
			return nil
		}
		found = fd
	}
	return found
}

func (t *ntail) scanStructs() {
	for _, f := range t.root {
		for _, d := range f.Decls {
			gd, ok := d.(*ast.GenDecl)
			if !ok || gd.Tok != token.TYPE {
				continue
			}
			for _, sp := range gd.Specs {
				ts, ok := sp.(*ast.TypeSpec)
				if !ok {
					continue
				}
				st, ok := ts.Type.(*ast.StructType)
				if !ok {
					continue
				}
				switch {
				case ts.Name.Name == "QFrame":
					for _, fl := range st.Fields.List {
						for _, n := range fl.Names {
							ty := src(fl.Type)
							switch {
							case strings.HasPrefix(ty, "[]") && t.frameCols == "":
								t.frameCols = n.Name
								t.namedType = strings.TrimPrefix(ty, "[]")
							case strings.HasPrefix(ty, "map[string]") && t.frameByName == "":
								t.frameByName = n.Name
							case ty == "error" && t.frameErr == "":
								t.frameErr = n.Name
							case strings.HasSuffix(ty, ".Int") && t.frameIndex == "":
								t.frameIndex = n.Name
							}
						}
					}
				}
			}
		}
	}
	for _, f := range t.root {
		for _, d := range f.Decls {
			gd, ok := d.(*ast.GenDecl)
			if !ok || gd.Tok != token.TYPE {
				continue
			}
			for _, sp := range gd.Specs {
				ts, ok := sp.(*ast.TypeSpec)
				if !ok || ts.Name.Name != t.namedType {
					continue
				}
				st, ok := ts.Type.(*ast.StructType)
				if !ok {
					continue
				}
				for _, fl := range st.Fields.List {
					for _, n := range fl.Names {
						switch src(fl.Type) {
						case "string":
							t.nmName = n.Name
						case "int":
							t.nmPos = n.Name
						}
					}
				}
			}
		}
	}
}

func isIdent(e ast.Expr, name string) bool {
	id, ok := unparen(e).(*ast.Ident)
	return ok && id.Name == name && name != ""
}

// config.<field>
func (t *ntail) cfgField(e ast.Expr, field string) bool {
	sel, ok := unparen(e).(*ast.SelectorExpr)
	return ok && field != "" && sel.Sel.Name == field && isIdent(sel.X, t.config)
}

// QFrame{Err: <non-nil error>}
func (t *ntail) errFrame(e ast.Expr, passVar string) bool {
	cl, ok := unparen(e).(*ast.CompositeLit)
	if !ok || src(cl.Type) != "QFrame" || len(cl.Elts) != 1 {
		return false
	}
	kv, ok := cl.Elts[0].(*ast.KeyValueExpr)
	if !ok || src(kv.Key) != t.frameErr || t.frameErr == "" {
		return false
	}
	if passVar != "" && isIdent(kv.Value, passVar) {
		return true
	}
	x := &bexec{bctx: t.bctx}
	return x.isErrCall(kv.Value, &bscope{vars: map[string]*bv{}})
}

func (t *ntail) returnsErrFrame(b []ast.Stmt, passVar string) bool {
	if len(b) != 1 {
		return false
	}
	r, ok := b[0].(*ast.ReturnStmt)
	return ok && len(r.Results) == 1 && t.errFrame(r.Results[0], passVar)
}

func (t *ntail) lint(e ast.Expr, inLoop bool) *lt {
	e = unparen(e)
	switch v := e.(type) {
	case *ast.Ident:
		switch {
		case inLoop && v.Name == t.loopI && t.loopI != "":
			return lh("LInt.i")
		case v.Name == t.first && t.first != "":
			return lh("LInt.first")
		case v.Name == t.current && t.current != "":
			return lh("LInt.current")
		}
	case *ast.BasicLit:
		if v.Kind == token.INT {
			if n, err := strconv.Atoi(v.Value); err == nil {
				return lh("LInt.lit", lh(strconv.Itoa(n)))
			}
		}
	case *ast.CallExpr:
		if id, ok := v.Fun.(*ast.Ident); ok && id.Name == "uint32" && len(v.Args) == 1 {
			if a := t.lint(v.Args[0], inLoop); a != nil {
				return lh("LInt.u32", a)
			}
		}
	}
	return nil
}

func (t *ntail) lcond(e ast.Expr) *lt {
	b, ok := unparen(e).(*ast.BinaryExpr)
	if !ok || (b.Op != token.EQL && b.Op != token.NEQ) {
		return nil
	}
	x, y := t.lint(b.X, true), t.lint(b.Y, true)
	if x == nil || y == nil {
		return nil
	}
	if b.Op == token.EQL {
		return lh("LCond.eq", x, y)
	}
	return lh("LCond.ne", x, y)
}

// the body of the loop
func (t *ntail) loopBody(stmts []ast.Stmt) []*lt {
	var res []*lt
	for i := 0; i < len(stmts); i++ {
		switch s := stmts[i].(type) {
		case *ast.AssignStmt:
			if len(s.Rhs) != 1 {
				break
			}
			// col := data[name]
			if s.Tok == token.DEFINE && len(s.Lhs) == 1 && src(s.Rhs[0]) == t.data+"["+t.loopName+"]" && t.dataVar == "" {
				t.dataVar = src(s.Lhs[0])
				continue
			}
			// c, err := createColumn(name, col, config); if err != nil { return QFrame{Err: err} }
			if call, ok := s.Rhs[0].(*ast.CallExpr); ok && s.Tok == token.DEFINE && len(s.Lhs) == 2 && t.create != nil && isIdent(call.Fun, t.create.Name.Name) && len(call.Args) == 3 && i+1 < len(stmts) {
				argOk := isIdent(call.Args[0], t.loopName) && (isIdent(call.Args[1], t.dataVar) || src(call.Args[1]) == t.data+"["+t.loopName+"]") && isIdent(call.Args[2], t.config)
				if ifs, ok := stmts[i+1].(*ast.IfStmt); ok && argOk && ifs.Init == nil && ifs.Else == nil && src(unparen(ifs.Cond)) == src(s.Lhs[1])+" != nil" && t.returnsErrFrame(ifs.Body.List, src(s.Lhs[1])) && t.created == "" {
					t.created = src(s.Lhs[0])
					res = append(res, lh("LS.create"))
					i++
					continue
				}
			}
			// columns[i] = namedColumn{name: name, Column: c, pos: i}; colByName[name] = columns[i]
			if s.Tok == token.ASSIGN && len(s.Lhs) == 1 && src(s.Lhs[0]) == t.cols+"["+t.loopI+"]" && i+1 < len(stmts) {
				if cl, ok := s.Rhs[0].(*ast.CompositeLit); ok && src(cl.Type) == t.namedType && len(cl.Elts) == 3 {
					f := map[string]string{}
					for _, el := range cl.Elts {
						if kv, ok := el.(*ast.KeyValueExpr); ok {
							f[src(kv.Key)] = src(kv.Value)
						}
					}
					if f[t.nmName] == t.loopName && f[t.nmPos] == t.loopI && f["Column"] == t.created && t.created != "" && t.nmName != "" && t.nmPos != "" {
						if s2, ok := stmts[i+1].(*ast.AssignStmt); ok && s2.Tok == token.ASSIGN && src(s2) == t.byName+"["+t.loopName+"] = "+t.cols+"["+t.loopI+"]" {
							res = append(res, lh("LS.store"))
							i++
							continue
						}
					}
				}
			}
			// currentLen = c.Len()
			if s.Tok == token.ASSIGN && len(s.Lhs) == 1 && isIdent(s.Lhs[0], t.current) && src(s.Rhs[0]) == t.created+".Len()" && t.created != "" {
				res = append(res, lh("LS.setCurrent"))
				continue
			}
			if s.Tok == token.ASSIGN && len(s.Lhs) == 1 && isIdent(s.Lhs[0], t.first) && isIdent(s.Rhs[0], t.current) {
				res = append(res, lh("LS.setFirst"))
				continue
			}
		case *ast.IfStmt:
			if s.Init != nil || s.Else != nil {
				break
			}
			c := t.lcond(s.Cond)
			if c == nil {
				break
			}
			if t.returnsErrFrame(s.Body.List, "") {
				res = append(res, lh("LS.rejectIf", c))
				continue
			}
			if inner := t.loopBody(s.Body.List); len(inner) == 1 && !inner[0].hasOpaque() {
				res = append(res, lh("LS.ifThen", c, inner[0]))
				continue
			}
		}
		res = append(res, lsop(stmts[i]))
	}
	return res
}

// the statements of New from the end of its guard prefix on
func (c *bctx) newTail() ([]*lt, bool) {
	t := &ntail{bctx: c}
	fd := c.newFn()
	if fd == nil {
		return []*lt{ls("NS.opaque", "no function (map[string]…, …) QFrame")}, false
	}
	t.data = fd.Type.Params.List[0].Names[0].Name
	t.scanStructs()
	// the loop: `for i, name := range config.<order>` whose body calls f(name, …, config) with two results
	loopAt := -1
	for n, st := range fd.Body.List {
		rg, ok := st.(*ast.RangeStmt)
		if !ok || rg.Tok != token.DEFINE || rg.Key == nil || rg.Value == nil {
			continue
		}
		sel, ok := rg.X.(*ast.SelectorExpr)
		if !ok || sel.Sel.Name != c.cfgOrder || c.cfgOrder == "" {
			continue
		}
		cfg, ok := sel.X.(*ast.Ident)
		if !ok {
			continue
		}
		for _, b := range rg.Body.List {
			as, ok := b.(*ast.AssignStmt)
			if !ok || len(as.Lhs) != 2 || len(as.Rhs) != 1 {
				continue
			}
			call, ok := as.Rhs[0].(*ast.CallExpr)
			if !ok || len(call.Args) != 3 || !isIdent(call.Args[2], cfg.Name) {
				continue
			}
			id, ok := call.Fun.(*ast.Ident)
			if !ok {
				continue
			}
			if f, ok := c.fns[id.Name]; ok && f.Recv == nil {
				c.create = f
				t.config = cfg.Name
				t.loopI, t.loopName = src(rg.Key), src(rg.Value)
				loopAt = n
			}
		}
	}
	if loopAt < 0 {
		return []*lt{ls("NS.opaque", "no loop over the column order that creates the columns")}, false
	}
	// the `:=` statements directly in front of the loop
	start := loopAt
	for start > 0 {
		as, ok := fd.Body.List[start-1].(*ast.AssignStmt)
		if !ok || as.Tok != token.DEFINE {
			break
		}
		start--
	}
	loop := fd.Body.List[loopAt].(*ast.RangeStmt)
	// which of the two int variables receives <column>.Len()
	var intVars []string
	var intVals []string
	for _, st := range fd.Body.List[start:loopAt] {
		as := st.(*ast.AssignStmt)
		if len(as.Lhs) == 2 && len(as.Rhs) == 2 {
			_, l1 := as.Rhs[0].(*ast.BasicLit)
			_, l2 := as.Rhs[1].(*ast.BasicLit)
			if l1 && l2 {
				intVars = []string{src(as.Lhs[0]), src(as.Lhs[1])}
				intVals = []string{src(as.Rhs[0]), src(as.Rhs[1])}
			}
		}
	}
	if len(intVars) == 2 {
		ast.Inspect(loop.Body, func(n ast.Node) bool {
			as, ok := n.(*ast.AssignStmt)
			if ok && as.Tok == token.ASSIGN && len(as.Lhs) == 1 && len(as.Rhs) == 1 && strings.HasSuffix(src(as.Rhs[0]), ".Len()") {
				for i, v := range intVars {
					if src(as.Lhs[0]) == v {
						t.current, t.first = v, intVars[1-i]
					}
				}
			}
			return true
		})
	}
	var steps []*lt
	allocs := 0
	for _, st := range fd.Body.List[start:loopAt] {
		as := st.(*ast.AssignStmt)
		if len(as.Lhs) == 1 && len(as.Rhs) == 1 {
			switch src(as.Rhs[0]) {
			case "make([]" + t.namedType + ", len(" + t.data + "))":
				t.cols = src(as.Lhs[0])
				allocs++
			case "make(map[string]" + t.namedType + ", len(" + t.data + "))":
				t.byName = src(as.Lhs[0])
				allocs++
			default:
				steps = append(steps, nsop(st))
				continue
			}
			if allocs == 2 {
				steps = append(steps, lh("NS.alloc"))
			}
			continue
		}
		if len(intVars) == 2 && t.first != "" && src(as.Lhs[0]) == intVars[0] && len(as.Lhs) == 2 {
			a, b := intVals[0], intVals[1]
			if t.first == intVars[1] {
				a, b = b, a
			}
			steps = append(steps, lh("NS.initLens", lh(a), lh(b)))
			continue
		}
		steps = append(steps, nsop(st))
	}
	if allocs != 2 {
		steps = append(steps, ls("NS.opaque", "the containers of the columns are not made in front of the loop"))
	}
	steps = append(steps, lh("NS.loop", ll(t.loopBody(loop.Body.List))))
	for _, st := range fd.Body.List[loopAt+1:] {
		switch s := st.(type) {
		case *ast.IfStmt:
			// if len(config.<enums>) > 0 { …; return QFrame{Err: …} }
			if b, ok := unparen(s.Cond).(*ast.BinaryExpr); ok && s.Init == nil && s.Else == nil && len(s.Body.List) > 0 {
				call, isCall := unparen(b.X).(*ast.CallExpr)
				if isCall && isIdent(call.Fun, "len") && len(call.Args) == 1 && t.cfgField(call.Args[0], c.cfgEnums) && src(b.Y) == "0" && (b.Op == token.GTR || b.Op == token.NEQ) {
					last := s.Body.List[len(s.Body.List)-1]
					returns := 0
					ast.Inspect(s.Body, func(n ast.Node) bool {
						if _, ok := n.(*ast.ReturnStmt); ok {
							returns++
						}
						return true
					})
					if returns == 1 && t.returnsErrFrame([]ast.Stmt{last}, "") {
						steps = append(steps, lh("NS.rejectIfEnumsLeft"))
						continue
					}
				}
			}
		case *ast.ReturnStmt:
			// return QFrame{columns: columns, columnsByName: colByName, index: index.NewAscending(uint32(currentLen)), Err: nil}
			if len(s.Results) == 1 {
				if cl, ok := s.Results[0].(*ast.CompositeLit); ok && src(cl.Type) == "QFrame" {
					f := map[string]ast.Expr{}
					for _, el := range cl.Elts {
						if kv, ok := el.(*ast.KeyValueExpr); ok {
							f[src(kv.Key)] = kv.Value
						}
					}
					errOk := f[t.frameErr] == nil || isNilIdent(f[t.frameErr])
					if len(f) == len(cl.Elts) && f[t.frameCols] != nil && isIdent(f[t.frameCols], t.cols) && f[t.frameByName] != nil && isIdent(f[t.frameByName], t.byName) && errOk {
						if call, ok := f[t.frameIndex].(*ast.CallExpr); ok && len(call.Args) == 1 {
							if sel, ok := call.Fun.(*ast.SelectorExpr); ok && strings.HasSuffix(c.pkgPath(sel.X), "/internal/index") {
								// the function of internal/index that makes the index 0 … n-1: (uint32) Int
								ifd := c.funcsOf("index")[sel.Sel.Name]
								if ifd != nil && ifd.Recv == nil && strings.Join(flatTypes(ifd.Type.Params), ",") == "uint32" && strings.Join(flatTypes(ifd.Type.Results), ",") == "Int" {
									if n := t.lint(call.Args[0], false); n != nil {
										steps = append(steps, lh("NS.retFrame", n))
										continue
									}
								}
							}
						}
					}
				}
			}
		}
		steps = append(steps, nsop(st))
	}
	return steps, true
}

// is the default column order sorted? `sort.Strings(config.<order>)` after the last `append` to it inside the block
// `if len(config.<order>) == 0 { … }` of New's prefix
func (c *bctx) defaultOrderSorted() bool {
	fd := c.newFn()
	if fd == nil || c.cfgOrder == "" {
		return false
	}
	sorted := false
	for _, st := range fd.Body.List {
		ifs, ok := st.(*ast.IfStmt)
		if !ok || ifs.Init != nil {
			continue
		}
		b, ok := unparen(ifs.Cond).(*ast.BinaryExpr)
		if !ok || b.Op != token.EQL || src(b.Y) != "0" {
			continue
		}
		call, ok := unparen(b.X).(*ast.CallExpr)
		if !ok || !isIdent(call.Fun, "len") || len(call.Args) != 1 {
			continue
		}
		sel, ok := call.Args[0].(*ast.SelectorExpr)
		if !ok || sel.Sel.Name != c.cfgOrder {
			continue
		}
		order := src(sel)
		// walk the block in source order: the last relevant event must be the sort
		ast.Inspect(ifs.Body, func(n ast.Node) bool {
			switch s := n.(type) {
			case *ast.AssignStmt:
				if len(s.Lhs) == 1 && src(s.Lhs[0]) == order {
					sorted = false
				}
			case *ast.ExprStmt:
				if call, ok := s.X.(*ast.CallExpr); ok && len(call.Args) == 1 && src(call.Args[0]) == order {
					if sel, ok := call.Fun.(*ast.SelectorExpr); ok && c.pkgPath(sel.X) == "sort" && sel.Sel.Name == "Strings" {
						sorted = true
					}
				}
			}
			return true
		})
	}
	return sorted
}

// constructLean writes QF/Gen/Construct.lean.
func constructLean(repo string, root, ecol map[string]*ast.File) string {
	var b strings.Builder
	b.WriteString("/- GENERATED on every run by /verif/go/cmd/extract from /repo's source (tie T1). Do not edit. -/\nimport QF.Core.Factory\nimport QF.Core.Construct\nnamespace QF.Gen\n\n")
	b.WriteString(factoryLean(ecol))
	c := &bctx{repo: repo, root: root, fns: funcDecls(root), imports: importsOf(root), pkgFns: map[string]map[string]*ast.FuncDecl{}}
	c.scan()
	tail, _ := c.newTail()
	b.WriteString("\n/-- the function the loop of `New` calls to make a column (`createColumn`), executed for every kind of data value: (kind, term) -/\n")
	b.WriteString("def createColumnAst : List (DKind × CK) := [\n" + strings.Join(c.createColumnAsts(), ",\n") + "]\n\n")
	b.WriteString("/-- `New` from the end of its guard prefix on -/\n")
	parts := make([]string, len(tail))
	for i, s := range tail {
		parts[i] = "  " + s.lean()
	}
	b.WriteString("def newTailAst : List NS := [\n" + strings.Join(parts, ",\n") + "]\n\n")
	b.WriteString("/-- the default column order is sorted: `sort.Strings` is the last thing done to it in the block that fills it -/\n")
	b.WriteString("def newOrderSorted : Bool := " + strconv.FormatBool(c.defaultOrderSorted()) + "\n")
	b.WriteString("\nend QF.Gen\n")
	return b.String()
}
