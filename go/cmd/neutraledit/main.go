// Command neutraledit rewrites one function of a Go file without changing what it does; bin/selftest-ties uses it for the
// "pure rename" column of its table (no generated file except Facts.lean may change under them).
//
//	neutraledit -file F -func Recv.Name -rename    every parameter, result, receiver, local variable and local constant declared
//	                                               inside the function (closures included) gets the suffix "Rn"
//
// The file is printed back with go/format, so the layout is normalised as well (the printer drops parentheses around
// if/for conditions, which is why the script adds those textually afterwards). go/parser + go/ast only.
package main

import (
	"bytes"
	"flag"
	"fmt"
	"go/ast"
	"go/format"
	"go/parser"
	"go/token"
	"os"
)

func recvName(e ast.Expr) string {
	switch t := e.(type) {
	case *ast.StarExpr:
		return recvName(t.X)
	case *ast.Ident:
		return t.Name
	case *ast.IndexExpr:
		return recvName(t.X)
	}
	return "?"
}

func main() {
	file := flag.String("file", "", "Go source file (rewritten in place)")
	fn := flag.String("func", "", "function, as Name or Recv.Name")
	rename := flag.Bool("rename", false, "rename parameters and locals")
	flag.Parse()
	fset := token.NewFileSet()
	f, err := parser.ParseFile(fset, *file, nil, parser.ParseComments)
	if err != nil {
		fmt.Fprintln(os.Stderr, "neutraledit:", err)
		os.Exit(1)
	}
	var fd *ast.FuncDecl
	for _, d := range f.Decls {
		if x, ok := d.(*ast.FuncDecl); ok && x.Body != nil {
			name := x.Name.Name
			if x.Recv != nil && len(x.Recv.List) > 0 {
				name = recvName(x.Recv.List[0].Type) + "." + name
			}
			if name == *fn {
				fd = x
			}
		}
	}
	if fd == nil {
		fmt.Fprintln(os.Stderr, "neutraledit: no function", *fn, "in", *file)
		os.Exit(1)
	}
	n := 0
	if *rename {
		// keys of composite literals are field names more often than not; the parser resolves them like variables
		keys := map[*ast.Ident]bool{}
		ast.Inspect(fd, func(x ast.Node) bool {
			if cl, ok := x.(*ast.CompositeLit); ok {
				for _, el := range cl.Elts {
					if kv, ok := el.(*ast.KeyValueExpr); ok {
						if id, ok := kv.Key.(*ast.Ident); ok {
							keys[id] = true
						}
					}
				}
			}
			return true
		})
		// collect first: Object.Pos looks the declaring identifier up by name
		var ids []*ast.Ident
		ast.Inspect(fd, func(x ast.Node) bool {
			id, ok := x.(*ast.Ident)
			if !ok || id.Obj == nil || id.Name == "_" || keys[id] {
				return true
			}
			if id.Obj.Kind != ast.Var && id.Obj.Kind != ast.Con {
				return true
			}
			if p := id.Obj.Pos(); p < fd.Pos() || p >= fd.End() {
				return true
			}
			ids = append(ids, id)
			return true
		})
		for _, id := range ids {
			id.Name += "Rn"
			n++
		}
	}
	var b bytes.Buffer
	if err := format.Node(&b, fset, f); err != nil {
		fmt.Fprintln(os.Stderr, "neutraledit:", err)
		os.Exit(1)
	}
	if err := os.WriteFile(*file, b.Bytes(), 0o644); err != nil {
		fmt.Fprintln(os.Stderr, "neutraledit:", err)
		os.Exit(1)
	}
	fmt.Println(n)
}
