module verif

go 1.20

require github.com/tobgu/qframe v0.0.0

require github.com/mauricelam/genny v0.0.0-20190320071652-0800202903e5 // indirect

replace github.com/tobgu/qframe => /repo
