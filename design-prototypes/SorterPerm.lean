import Qfproto.Sorter
namespace Sorter

theorem sw_perm (a : Ix) (i j : Nat) : (sw a i j).Perm a := by
  unfold sw; split
  · exact Array.swap_perm _ _
  · exact Array.Perm.refl _

theorem foldl_perm {α} (f : Ix → α → Ix) (h : ∀ a x, (f a x).Perm a) (l : List α) (a : Ix) :
    (l.foldl f a).Perm a := by
  induction l generalizing a with
  | nil => exact Array.Perm.refl _
  | cons x l ih => exact (ih (f a x)).trans (h a x)

theorem insInner_perm (less) (a : Ix) (lo j : Nat) : (insInner less a lo j).Perm a := by
  induction j generalizing a with
  | zero => exact Array.Perm.refl _
  | succ j ih =>
    unfold insInner; split
    · exact (ih _).trans (sw_perm _ _ _)
    · exact Array.Perm.refl _

theorem insertionSort_perm (less) (a : Ix) (lo hi : Nat) : (insertionSort less a lo hi).Perm a :=
  foldl_perm _ (fun a i => insInner_perm less a lo i) _ _

theorem ite_perm {c : Prop} [Decidable c] {x y a : Ix} (hx : x.Perm a) (hy : y.Perm a) :
    (if c then x else y).Perm a := by split <;> assumption

theorem siftDown_perm (less) (fuel : Nat) (a : Ix) (root hi first : Nat) :
    (siftDown less fuel a root hi first).Perm a := by
  induction fuel generalizing a root with
  | zero => exact Array.Perm.refl _
  | succ n ih =>
    unfold siftDown
    simp only []
    refine ite_perm (Array.Perm.refl _) (ite_perm (Array.Perm.refl _) ((ih _ _).trans (sw_perm _ _ _)))

theorem heapSort_perm (less) (a : Ix) (lo hi : Nat) : (heapSort less a lo hi).Perm a := by
  unfold heapSort
  refine (foldl_perm _ (fun a i => ?_) _ _).trans (foldl_perm _ (fun a i => ?_) _ _)
  · exact (siftDown_perm ..).trans (sw_perm ..)
  · exact siftDown_perm ..

theorem medianOfThree_perm (less) (a : Ix) (m1 m0 m2 : Nat) : (medianOfThree less a m1 m0 m2).Perm a := by
  unfold medianOfThree
  have h1 : (if lt less a m1 m0 then sw a m1 m0 else a).Perm a := ite_perm (sw_perm ..) (Array.Perm.refl _)
  simp only []
  refine ite_perm (ite_perm (((sw_perm ..).trans (sw_perm ..)).trans h1) ((sw_perm ..).trans h1)) h1

theorem pivotLoop_perm (less) (fuel : Nat) (a : Ix) (p b c : Nat) : (pivotLoop less fuel a p b c).1.Perm a := by
  induction fuel generalizing a b c with
  | zero => exact Array.Perm.refl _
  | succ n ih =>
    unfold pivotLoop
    simp only []
    split
    · exact Array.Perm.refl _
    · exact (ih ..).trans (sw_perm ..)

theorem protectLoop_perm (less) (fuel : Nat) (a : Ix) (p x b : Nat) : (protectLoop less fuel a p x b).1.Perm a := by
  induction fuel generalizing a x b with
  | zero => exact Array.Perm.refl _
  | succ n ih =>
    unfold protectLoop
    simp only []
    split
    · exact Array.Perm.refl _
    · exact (ih ..).trans (sw_perm ..)

theorem doPivot_perm (less) (a : Ix) (lo hi : Nat) : (doPivot less a lo hi).1.Perm a := by
  unfold doPivot
  simp only []
  -- stage 0: ninther
  generalize hA0 : (if hi - lo > 40 then _ else a) = a0
  have h0 : a0.Perm a := by
    subst hA0
    exact ite_perm (((medianOfThree_perm ..).trans (medianOfThree_perm ..)).trans (medianOfThree_perm ..)) (Array.Perm.refl _)
  generalize hA1 : medianOfThree less a0 lo ((lo + hi) / 2) (hi - 1) = a1
  have h1 : a1.Perm a := by subst hA1; exact (medianOfThree_perm ..).trans h0
  generalize hX : scanUp _ _ _ _ = x
  have hp := pivotLoop_perm less (a1.size + 1) a1 lo x (hi - 1)
  generalize pivotLoop less (a1.size + 1) a1 lo x (hi - 1) = r at hp
  obtain ⟨a2, b, c⟩ := r
  simp only [] at hp ⊢
  have h2 : a2.Perm a := hp.trans h1
  sorry

theorem quickSort_perm (less) (fuel : Nat) (a : Ix) (lo hi depth : Nat) :
    (quickSort less fuel a lo hi depth).Perm a := by
  induction fuel generalizing a lo hi depth with
  | zero => exact Array.Perm.refl _
  | succ n ih =>
    unfold quickSort
    simp only []
    split
    · split
      · exact heapSort_perm ..
      · have hp := doPivot_perm less a lo hi
        generalize doPivot less a lo hi = r at hp
        obtain ⟨a', mlo, mhi⟩ := r
        simp only [] at hp ⊢
        split
        · exact ((ih ..).trans (ih ..)).trans hp
        · exact ((ih ..).trans (ih ..)).trans hp
    · split
      · exact (insertionSort_perm ..).trans (foldl_perm _ (fun a i => ite_perm (sw_perm ..) (Array.Perm.refl _)) _ _)
      · exact Array.Perm.refl _

theorem sort_perm (less) (ix : Ix) : (sort less ix).Perm ix := quickSort_perm ..

end Sorter
