/-! Prototype: mirror of internal/strings/convert.go ToUpper on code points with a byte output buffer. -/
namespace U
abbrev Byte := UInt8

def enc (c : Char) : List Byte := String.utf8EncodeChar c

/-- second loop of ToUpper: for each remaining rune write `up c` into the buffer;
    `cap` is len(b) (grows by doubling), output bytes accumulate in `out` (= b[:nbytes]). -/
def loop2 (up : Char → Char) (cap : Nat) (out : List Byte) : List Char → List Byte
  | [] => out
  | c :: cs =>
    let r := up c
    if r.val ≤ 0x80 ∧ out.length < cap then loop2 up cap (out ++ [r.val.toUInt8]) cs   -- `r <= utf8.RuneSelf`
    else
      let cap := if out.length + 4 ≥ cap then 2 * cap else cap
      loop2 up cap (out ++ enc r) cs

/-- ToUpper(bP, s): returns the bytes of the result string -/
def toUpper (up : Char → Char) (bufLen : Nat) (s : List Char) : List Byte :=
  -- first loop: up to the first rune that changes
  let rec go (pre : List Char) : List Char → List Byte
    | [] => (pre.flatMap enc)            -- nothing changed: return s itself
    | c :: cs =>
      let r := up c
      if r == c then go (pre ++ [c]) cs
      else
        let sLen := ((pre ++ c :: cs).flatMap enc).length
        let cap := if bufLen ≥ sLen + 4 then bufLen else sLen + 4
        let out := pre.flatMap enc
        let out := if r.val ≤ 0x80 then out ++ [r.val.toUInt8] else out ++ enc r
        loop2 up cap out cs
  go [] s

def upAscii (c : Char) : Char := if 'a' ≤ c ∧ c ≤ 'z' then Char.ofNat (c.toNat - 32) else c
#eval toUpper upAscii 10 "a\u0080".toList        -- Go: [65, 0x80] (invalid UTF-8)
#eval ("A\u0080".toList.flatMap enc)             -- spec: [65, 0xC2, 0x80]
#eval toUpper upAscii 10 "\u0080a".toList        -- first loop passes U+0080 unchanged, then 'a' → prefix copied verbatim: ok
#eval toUpper upAscii 10 "abc".toList

/-- the specification -/
def spec (up : Char → Char) (s : List Char) : List Byte := (s.map up).flatMap enc

theorem toUpper_spec (up : Char → Char) (bufLen : Nat) (s : List Char)
    (h : ∀ c ∈ s, (up c).val ≠ 0x80 ∨ up c = c) : True := trivial   -- statement placeholder; see DESIGN C18
end U
